import TallyVerif.Driver.Csv
import TallyVerif.Driver.Engine
import TallyVerif.Driver.Analyze
import TallyVerif.Driver.Migrate
import TallyVerif.Model.Pipeline
import TallyVerif.Driver.Config
import TallyVerif.Model.PipelineCfg
/-! op `pipeline`: `tally up` end to end on the models (C05 parser → transforms → engine or legacy tuple loop → totals). -/
namespace TallyVerif.Driver
open Lean TallyVerif.Py TallyVerif.Expr TallyVerif.Rules TallyVerif.Engine TallyVerif.Pipeline

def rowOfCsv (t : TallyVerif.Csv.Txn) : Row :=
  let iso := String.ofList (t.date.take 10)
  { description := String.ofList t.rawDescription
    amount := UInt64.ofNat t.amount.toBits
    date := match strictIso iso with | some (some d) => some d | _ => none
    source := String.ofList t.source
    location := t.location.map String.ofList
    field := t.field.map (fun f => f.map (fun kv => (String.ofList kv.1, String.ofList kv.2))) }

/-- a double shipped as the decimal string of its bit pattern → its exact value in units of 2^-1074 (0 if not finite:
the harness does not ship such budgets) -/
def unitsLit (j : Json) (k : String) : TallyVerif.Migrate.NumLit :=
  ⟨(unitsOfBits (UInt64.ofNat ((jstr j k).toNat?.getD 0))).getD 0, []⟩

def amountCondBits (j : Json) : TallyVerif.Migrate.AmountCond :=
  match jstr j "op" with
  | ">" => .gt (unitsLit j "v")
  | ">=" => .ge (unitsLit j "v")
  | "<" => .lt (unitsLit j "v")
  | "<=" => .le (unitsLit j "v")
  | "=" => .eq (unitsLit j "v")
  | _ => .range (unitsLit j "lo") (unitsLit j "hi")

def legacyRuleOfJson (j : Json) : LegacyRule :=
  { rule := lruleOfJson j, patternE := pexprOfJson (jget j "pattern_ast"),
    mods := ⟨(jarr j "amount").map amountCondBits, (jarr j "date").map Mig.dateCondOf⟩,
    tags := (jarr j "tag_specs").map tagSpecOf }

def legacyBookOfJson (j : Json) : Option LegacyBook :=
  match j with
  | .null => none
  | _ =>
    let tbl : List (Nat × TallyVerif.Migrate.Date) := (jarr j "cutoffs").map fun e =>
      match e with
      | .arr a => (Mig.natOf (a.getD 0 .null), Mig.dateD (a.getD 1 .null))
      | _ => (0, ⟨0, 0, 0⟩)
    some { rules := (jarr j "rules").map legacyRuleOfJson, cutoff := fun n => tbl.lookup n }

def rulebookOfJson (rbj : Json) : Rulebook :=
  { mode := if jstr rbj "mode" == "most_specific" then Mode.mostSpecific else Mode.firstMatch
    variables := namedExprs (jget rbj "variables"), transforms := namedExprs (jget rbj "transforms"),
    rules := (jarr rbj "rules").map ruleXOfJson, hasEngine := jbool rbj "has_engine",
    legacy := legacyBookOfJson (jget rbj "legacy") }

/-- a configured source of the case: supplemental, or the rows of C05's parser on its own settings -/
def sourceOfJson (sj : Json) : Source :=
  if jbool sj "supplemental" then ⟨true, none⟩ else
  match csvParseJson sj with
  | .error _ => ⟨false, none⟩                    -- cmd_run: "Error parsing" — the source is skipped
  | .ok txns => ⟨false, some (txns.map rowOfCsv)⟩

/-! ### op `pipeline` with a `settings` key: `PipelineCfg.upFromSettings` — the model starts at the loaded settings object.

Input: `settings` (a `Y` value), `cfgdir`, `exists` / `views_ok` / `ext` as for op `config`; `files` = `[[path, text | null], …]`
(the text as `open(path, 'r', encoding='utf-8')` yields it; null: opening or decoding raises); `regex` = `[[delimiter, null |
[[stripped line, [groups…] | null], …]], …]` (null: `re.error`); `floats` = `[[text, bits | null], …]`; `dates` = `[[format,
token, iso | null], …]`; `rulebook` / `supp` / `oracle` as for the plain `pipeline` op, plus `rulebook_from` = `{path, format}`:
the rules file the shipped rulebook was loaded from — it must be the one the MODEL selects.  `misses` in the answer lists the
oracle questions the model asked that the tables do not answer. -/

private def optTable (j : Json) (k : String) : List (String × Option String) :=
  (jarr j k).map fun p => match p with
    | .arr #[.str a, .str b] => (a, some b)
    | .arr #[.str a, _] => (a, none)
    | _ => ("", none)

private def dateTable (j : Json) : List (String × Option String) :=
  (jarr j "dates").map fun p => match p with
    | .arr #[.str f, .str t, .str d] => (f ++ "\u0001" ++ t, some d)
    | .arr #[.str f, .str t, _] => (f ++ "\u0001" ++ t, none)
    | _ => ("", none)

private def regexTable (j : Json) : List (String × Option (List (String × Option (List (List Char))))) :=
  (jarr j "regex").map fun p => match p with
    | .arr #[.str d, .arr lines] => (d, some (lines.toList.map fun l => match l with
        | .arr #[.str a, .arr g] => (a, some (g.toList.map fun x => (asStr x).toList))
        | .arr #[.str a, _] => (a, none)
        | _ => ("", none)))
    | .arr #[.str d, _] => (d, none)
    | _ => ("", none)

def worldOfJson (j : Json) : PipelineCfg.World :=
  let files := optTable j "files"
  let floats := optTable j "floats"
  let dates := dateTable j
  let rx := regexTable j
  { text := fun p => ((files.lookup (String.ofList p)).join).map String.toList
    regex := fun d => match rx.lookup (String.ofList d) with
      | some (some lines) => some fun s => (lines.lookup (String.ofList s)).join
      | _ => none
    csv := { pyFloat := fun s => match floats.lookup (String.ofList s) with
               | some (some b) => some (TallyVerif.Csv.F64.ofBits (b.toNat?.getD 0))
               | _ => none
             strptime := fun f tok => match dates.lookup (String.ofList f ++ "\u0001" ++ String.ofList tok) with
               | some (some d) => .ok d.toList
               | _ => .error .valueError }
    special := fun _ => none }

/-- the oracle questions `parsePlanned` asks about one planned call that the shipped tables leave open -/
def plannedMisses (j : Json) (p : TallyVerif.Config.Planned) : List Json :=
  let files := optTable j "files"
  let floats := optTable j "floats"
  let dates := dateTable j
  let rx := regexTable j
  match p.call with
  | .generic g nm ds =>
    match TallyVerif.Config.readArgs g nm ds with
    | .error _ => []
    | .ok ra =>
      match files.lookup (String.ofList p.path) with
      | none => [Json.arr #[.str "file", jS p.path]]
      | some none => []
      | some (some txt) =>
        let text := txt.toList
        let need (m : List Char → Option (List (List Char))) : List Json :=
          (TallyVerif.Csv.iterRows m ra.delim ra.hasHeader text).flatMap fun row =>
            if row.length ≤ TallyVerif.Csv.maxCol ra.spec then [] else
            match TallyVerif.Csv.describe ra.spec row with
            | .error _ => []
            | .ok (desc, _) =>
              let dsr := TallyVerif.Csv.cell row ra.spec.dateCol
              let am := TallyVerif.Csv.cell row ra.spec.amountCol
              if dsr.isEmpty || desc.isEmpty || am.isEmpty then [] else
              match TallyVerif.Csv.dateToken ra.spec dsr with
              | none => []
              | some tok =>
                match dates.lookup (String.ofList ra.spec.dateFormat ++ "\u0001" ++ String.ofList tok) with
                | none => [Json.arr #[.str "strptime", jS ra.spec.dateFormat, jS tok]]
                | some none => []
                | some (some _) =>
                  let cl := (TallyVerif.Csv.cleanAmount ra.eu am).2
                  match floats.lookup (String.ofList cl) with
                  | none => [Json.arr #[.str "float", jS cl]]
                  | some _ => []
        match ra.delim with
        | .csv _ => need fun _ => none
        | .regex =>
          match g.delimiter with
          | .str d =>
            match rx.lookup (String.ofList d) with
            | none => [Json.arr #[.str "regex", jS d]]
            | some none => []
            | some (some lines) =>
              let asked := ((TallyVerif.Csv.splitLines text).map TallyVerif.Csv.strip).filter fun s => !s.isEmpty
              let open_ := asked.filter fun s => (lines.lookup (String.ofList s)).isNone
              if open_.isEmpty then need fun s => (lines.lookup (String.ofList s)).join
              else open_.map fun s => Json.arr #[.str "regexline", jS d, jS s]
          | _ => []
  | _ => []

def reportJson (cls : List Classified) : List (String × Json) :=
  let s := TallyVerif.Totals.analyze floatNum asciiLower (cls.map toTotals)
  [("txns", .arr (cls.map fun c => obj [("merchant", .str c.merchant), ("category", .str c.category),
      ("subcategory", .str c.subcategory), ("tags", .arr ((sortStrs c.tags).map Json.str).toArray),
      ("amount", .str (toString c.amount.toNat)), ("month", .str c.month)]).toArray),
   ("income", floatToJson s.income), ("spending", floatToJson s.spending), ("credits", floatToJson s.credits),
   ("transfers_in", floatToJson s.transfersIn), ("transfers_out", floatToJson s.transfersOut),
   ("investment", floatToJson s.investment), ("count", .num s.count),
   ("cash_flow", floatToJson (TallyVerif.Totals.cashFlow floatNum asciiLower s)),
   ("by_merchant", .arr (s.byMerchant.map fun (k, c, v) => Json.arr #[.str k, .num c, floatToJson v]).toArray),
   ("by_month", .arr (s.byMonth.map fun (k, v) => Json.arr #[.str k, floatToJson v]).toArray)]

def handlePipelineCfg (j : Json) : Json :=
  let env := envOfJson j
  let y := yOfJson (jget j "settings")
  let w := worldOfJson j
  let o := oraclesOf (tableOfJson (jget j "oracle"))
  let rb := rulebookOfJson (jget j "rulebook")
  let supp := pairsVal (jget j "supp")
  let fnames := fnNames j
  let from_ := jget j "rulebook_from"
  let cands := candidatePaths env.cfgDir y
  let base : List (String × Json) := [("candidates", Json.arr (cands.map jS).toArray)]
  match TallyVerif.Config.resolveConfig env y with
  | .error e => obj (base ++ [("stop", .str "load"), ("cls", .str (pyExcName e.cls))])
  | .ok cfg =>
    match TallyVerif.Config.planSources (jbool j "quiet") env cfg with
    | .error e => obj (base ++ [("stop", .str "run"), ("cls", .str (pyExcName e.cls))])
    | .ok plan =>
      let misses := plan.flatMap (plannedMisses j)
      let special := plan.any fun p => match p.call with | .generic .. => false | _ => true
      let planJ : Json := .arr (plan.map plannedToJson).toArray
      if special then obj (base ++ [("err", .str "unmodelled"), ("why", .str "type: amex / boa source"), ("plan", planJ)])
      else if !misses.isEmpty then obj (base ++ [("misses", .arr misses.toArray), ("plan", planJ)])
      else
        -- the rulebook the harness shipped must have been loaded from the file the MODEL selects
        let sel : Json := rulesFileToJson cfg.rulesFile
        if sel != from_ then
          obj (base ++ [("err", .str "rules-file-mismatch"), ("model_selects", sel), ("rulebook_from", from_), ("plan", planJ)])
        else
          let classify : PipelineCfg.ClassEnv → Row → Except Err Classified := fun ce =>
            classifyRow o fnames modelKey supp
              { rb with mode := match ce.ruleMode with | .mostSpecific => Mode.mostSpecific | .firstMatch => Mode.firstMatch }
          match PipelineCfg.upFromSettings (jbool j "quiet") env w classify y with
          | .error (.model e) => errJson e
          | .error (.load e) => obj (base ++ [("stop", .str "load"), ("cls", .str (pyExcName e.cls))])
          | .error (.run e) => obj (base ++ [("stop", .str "run"), ("cls", .str (pyExcName e.cls))])
          | .ok cls => obj (base ++ reportJson cls ++ [("plan", planJ),
              ("mode", .str (match cfg.ruleMode with | .mostSpecific => "most_specific" | .firstMatch => "first_match"))])

def handlePipeline (j : Json) : Json :=
  if (j.getObjVal? "settings").isOk then handlePipelineCfg j else
  let o := oraclesOf (tableOfJson (jget j "oracle"))
  let rb := rulebookOfJson (jget j "rulebook")
  let supp := pairsVal (jget j "supp")
  let fnames := fnNames j
  match upLoop (classifyRow o fnames modelKey supp rb) ((jarr j "sources").map sourceOfJson) with
  | .error e => errJson e
  | .ok cls =>
    let s := TallyVerif.Totals.analyze floatNum asciiLower (cls.map toTotals)
    obj [("txns", .arr (cls.map fun c => obj [("merchant", .str c.merchant), ("category", .str c.category),
            ("subcategory", .str c.subcategory), ("tags", .arr ((sortStrs c.tags).map Json.str).toArray),
            ("amount", .str (toString c.amount.toNat)), ("month", .str c.month)]).toArray),
         ("income", floatToJson s.income), ("spending", floatToJson s.spending), ("credits", floatToJson s.credits),
         ("transfers_in", floatToJson s.transfersIn), ("transfers_out", floatToJson s.transfersOut),
         ("investment", floatToJson s.investment), ("count", .num s.count),
         ("cash_flow", floatToJson (TallyVerif.Totals.cashFlow floatNum asciiLower s)),
         ("by_merchant", .arr (s.byMerchant.map fun (k, c, v) => Json.arr #[.str k, .num c, floatToJson v]).toArray),
         ("by_month", .arr (s.byMonth.map fun (k, v) => Json.arr #[.str k, floatToJson v]).toArray)]

/-- op `explain`: `tally explain "<description>" --amount a` on the model -/
def handleExplain (j : Json) : Json :=
  let o := oraclesOf (tableOfJson (jget j "oracle"))
  let rb := rulebookOfJson (jget j "rulebook")
  let row : Row := { description := jstr j "description", amount := UInt64.ofNat ((jstr j "amount").toNat?.getD 0),
                     date := none, source := "", location := none, field := none }
  match classifyRow o (fnNames j) modelKey (pairsVal (jget j "supp")) rb row with
  | .error e => errJson e
  | .ok c => obj [("merchant", .str c.merchant), ("category", .str c.category), ("subcategory", .str c.subcategory),
                  ("tags", .arr ((sortStrs c.tags).map Json.str).toArray)]

/-- op `discoverlist`: the listing of `tally discover` on the model — same input as op `pipeline` -/
def handleDiscoverList (j : Json) : Json :=
  let o := oraclesOf (tableOfJson (jget j "oracle"))
  let rb := rulebookOfJson (jget j "rulebook")
  let rows : List Row := (jarr j "sources").foldl (fun acc sj =>
    if jbool sj "supplemental" then acc else
    match csvParseJson sj with
    | .error _ => acc                              -- cmd_discover: `except Exception: continue`
    | .ok txns => acc ++ txns.map rowOfCsv) []
  match discoverRows o (fnNames j) modelKey (pairsVal (jget j "supp")) rb rows with
  | .error e => errJson e
  | .ok listed =>
    obj [("transactions", .num rows.length),
         ("listed", .arr (listed.map fun (raw, cnt, tot) => Json.arr #[.str raw, .num cnt, floatToJson tot]).toArray)]

/-- op `legacyshape`: `_is_expression_pattern` on a list of Pattern cells -/
def handleLegacyShape (j : Json) : Json :=
  obj [("is_expr", .arr ((jarr j "patterns").map fun p =>
    Json.bool (isExpressionPattern (jstr p "p") (pexprOfJson (jget p "ast")))).toArray)]

end TallyVerif.Driver
