import TallyVerif.Driver.Csv
import TallyVerif.Driver.Engine
import TallyVerif.Driver.Analyze
import TallyVerif.Model.Pipeline
/-! op `pipeline`: `tally up` end to end on the models (C05 parser → transforms → engine → totals). -/
namespace TallyVerif.Driver
open Lean TallyVerif.Py TallyVerif.Expr TallyVerif.Rules TallyVerif.Engine TallyVerif.Pipeline

def rowOfCsv (t : TallyVerif.Csv.Txn) : Row :=
  let iso := String.ofList (t.date.take 10)
  { description := String.ofList t.rawDescription
    amount := UInt64.ofNat t.amount.toBits
    date := match strictIso iso with | some (some d) => some d | _ => none
    source := String.ofList t.source
    location := t.location.map String.ofList
    field := t.field.map (fun f => f.map (fun kv => (String.ofList kv.1, String.ofList kv.2))) }

def handlePipeline (j : Json) : Json :=
  let o := oraclesOf (tableOfJson (jget j "oracle"))
  let rbj := jget j "rulebook"
  let rb : Rulebook :=
    { mode := if jstr rbj "mode" == "most_specific" then Mode.mostSpecific else Mode.firstMatch
      variables := namedExprs (jget rbj "variables"), transforms := namedExprs (jget rbj "transforms"),
      rules := (jarr rbj "rules").map ruleXOfJson, hasEngine := jbool rbj "has_engine" }
  let supp := pairsVal (jget j "supp")
  let fnames := fnNames j
  let step (acc : Except String (List Classified)) (sj : Json) : Except String (List Classified) := do
    let sofar ← acc
    if jbool sj "supplemental" then pure sofar else
    match csvParseJson sj with
    | .error _ => pure sofar                       -- cmd_run: "Error parsing" — the source is skipped
    | .ok txns =>
      let cls ← txns.foldlM (fun (l : List Classified) t =>
        match classifyRow o fnames modelKey supp rb (rowOfCsv t) with
        | .ok c => pure (l ++ [c])
        | .error e => .error ((errJson e).compress)) []
      pure (sofar ++ cls)
  match (jarr j "sources").foldl step (.ok []) with
  | .error e => match Json.parse e with | .ok v => v | .error _ => obj [("err", .str e)]
  | .ok cls =>
    let s := TallyVerif.Totals.analyze floatNum asciiLower (cls.map toTotals)
    obj [("txns", .arr (cls.map fun c => obj [("merchant", .str c.merchant), ("category", .str c.category),
            ("subcategory", .str c.subcategory), ("tags", .arr ((sortStrs c.tags).map Json.str).toArray),
            ("amount", .str (toString c.amount.toNat)), ("month", .str c.month)]).toArray),
         ("income", floatToJson s.income), ("spending", floatToJson s.spending), ("credits", floatToJson s.credits),
         ("transfers_in", floatToJson s.transfersIn), ("transfers_out", floatToJson s.transfersOut),
         ("investment", floatToJson s.investment), ("count", .num s.count),
         ("cash_flow", floatToJson (TallyVerif.Totals.cashFlow floatNum asciiLower s)),
         ("by_merchant", .arr (s.byMerchant.map fun (k, c, v) => Json.arr #[.str k, .num c, floatToJson v]).toArray),
         ("by_month", .arr (s.byMonth.map fun (k, v) => Json.arr #[.str k, floatToJson v]).toArray)]

/-- op `explain`: `tally explain "<description>" --amount a` on the model -/
def handleExplain (j : Json) : Json :=
  let o := oraclesOf (tableOfJson (jget j "oracle"))
  let rbj := jget j "rulebook"
  let rb : Rulebook :=
    { mode := if jstr rbj "mode" == "most_specific" then Mode.mostSpecific else Mode.firstMatch
      variables := namedExprs (jget rbj "variables"), transforms := namedExprs (jget rbj "transforms"),
      rules := (jarr rbj "rules").map ruleXOfJson, hasEngine := jbool rbj "has_engine" }
  let row : Row := { description := jstr j "description", amount := UInt64.ofNat ((jstr j "amount").toNat?.getD 0),
                     date := none, source := "", location := none, field := none }
  match classifyRow o (fnNames j) modelKey (pairsVal (jget j "supp")) rb row with
  | .error e => errJson e
  | .ok c => obj [("merchant", .str c.merchant), ("category", .str c.category), ("subcategory", .str c.subcategory),
                  ("tags", .arr ((sortStrs c.tags).map Json.str).toArray)]

/-- op `discoverlist`: the listing of `tally discover` on the model — same input as op `pipeline` -/
def handleDiscoverList (j : Json) : Json :=
  let o := oraclesOf (tableOfJson (jget j "oracle"))
  let rbj := jget j "rulebook"
  let rb : Rulebook :=
    { mode := if jstr rbj "mode" == "most_specific" then Mode.mostSpecific else Mode.firstMatch
      variables := namedExprs (jget rbj "variables"), transforms := namedExprs (jget rbj "transforms"),
      rules := (jarr rbj "rules").map ruleXOfJson, hasEngine := jbool rbj "has_engine" }
  let rows : List Row := (jarr j "sources").foldl (fun acc sj =>
    if jbool sj "supplemental" then acc else
    match csvParseJson sj with
    | .error _ => acc                              -- cmd_discover: `except Exception: continue`
    | .ok txns => acc ++ txns.map rowOfCsv) []
  match discoverRows o (fnNames j) modelKey (pairsVal (jget j "supp")) rb rows with
  | .error e => errJson e
  | .ok listed =>
    obj [("transactions", .num rows.length),
         ("listed", .arr (listed.map fun (raw, cnt, tot) => Json.arr #[.str raw, .num cnt, floatToJson tot]).toArray)]

end TallyVerif.Driver
