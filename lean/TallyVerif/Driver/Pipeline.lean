import TallyVerif.Driver.Csv
import TallyVerif.Driver.Engine
import TallyVerif.Driver.Analyze
import TallyVerif.Driver.Migrate
import TallyVerif.Model.Pipeline
/-! op `pipeline`: `tally up` end to end on the models (C05 parser → transforms → engine or legacy tuple loop → totals). -/
namespace TallyVerif.Driver
open Lean TallyVerif.Py TallyVerif.Expr TallyVerif.Rules TallyVerif.Engine TallyVerif.Pipeline

def rowOfCsv (t : TallyVerif.Csv.Txn) : Row :=
  let iso := String.ofList (t.date.take 10)
  { description := String.ofList t.rawDescription
    amount := UInt64.ofNat t.amount.toBits
    date := match strictIso iso with | some (some d) => some d | _ => none
    source := String.ofList t.source
    location := t.location.map String.ofList
    field := t.field.map (fun f => f.map (fun kv => (String.ofList kv.1, String.ofList kv.2))) }

/-- a double shipped as the decimal string of its bit pattern → its exact value in units of 2^-1074 (0 if not finite:
the harness does not ship such budgets) -/
def unitsLit (j : Json) (k : String) : TallyVerif.Migrate.NumLit :=
  ⟨(unitsOfBits (UInt64.ofNat ((jstr j k).toNat?.getD 0))).getD 0, []⟩

def amountCondBits (j : Json) : TallyVerif.Migrate.AmountCond :=
  match jstr j "op" with
  | ">" => .gt (unitsLit j "v")
  | ">=" => .ge (unitsLit j "v")
  | "<" => .lt (unitsLit j "v")
  | "<=" => .le (unitsLit j "v")
  | "=" => .eq (unitsLit j "v")
  | _ => .range (unitsLit j "lo") (unitsLit j "hi")

def legacyRuleOfJson (j : Json) : LegacyRule :=
  { rule := lruleOfJson j, patternE := pexprOfJson (jget j "pattern_ast"),
    mods := ⟨(jarr j "amount").map amountCondBits, (jarr j "date").map Mig.dateCondOf⟩,
    tags := (jarr j "tag_specs").map tagSpecOf }

def legacyBookOfJson (j : Json) : Option LegacyBook :=
  match j with
  | .null => none
  | _ =>
    let tbl : List (Nat × TallyVerif.Migrate.Date) := (jarr j "cutoffs").map fun e =>
      match e with
      | .arr a => (Mig.natOf (a.getD 0 .null), Mig.dateD (a.getD 1 .null))
      | _ => (0, ⟨0, 0, 0⟩)
    some { rules := (jarr j "rules").map legacyRuleOfJson, cutoff := fun n => tbl.lookup n }

def rulebookOfJson (rbj : Json) : Rulebook :=
  { mode := if jstr rbj "mode" == "most_specific" then Mode.mostSpecific else Mode.firstMatch
    variables := namedExprs (jget rbj "variables"), transforms := namedExprs (jget rbj "transforms"),
    rules := (jarr rbj "rules").map ruleXOfJson, hasEngine := jbool rbj "has_engine",
    legacy := legacyBookOfJson (jget rbj "legacy") }

/-- a configured source of the case: supplemental, or the rows of C05's parser on its own settings -/
def sourceOfJson (sj : Json) : Source :=
  if jbool sj "supplemental" then ⟨true, none⟩ else
  match csvParseJson sj with
  | .error _ => ⟨false, none⟩                    -- cmd_run: "Error parsing" — the source is skipped
  | .ok txns => ⟨false, some (txns.map rowOfCsv)⟩

def handlePipeline (j : Json) : Json :=
  let o := oraclesOf (tableOfJson (jget j "oracle"))
  let rb := rulebookOfJson (jget j "rulebook")
  let supp := pairsVal (jget j "supp")
  let fnames := fnNames j
  match upLoop (classifyRow o fnames modelKey supp rb) ((jarr j "sources").map sourceOfJson) with
  | .error e => errJson e
  | .ok cls =>
    let s := TallyVerif.Totals.analyze floatNum asciiLower (cls.map toTotals)
    obj [("txns", .arr (cls.map fun c => obj [("merchant", .str c.merchant), ("category", .str c.category),
            ("subcategory", .str c.subcategory), ("tags", .arr ((sortStrs c.tags).map Json.str).toArray),
            ("amount", .str (toString c.amount.toNat)), ("month", .str c.month)]).toArray),
         ("income", floatToJson s.income), ("spending", floatToJson s.spending), ("credits", floatToJson s.credits),
         ("transfers_in", floatToJson s.transfersIn), ("transfers_out", floatToJson s.transfersOut),
         ("investment", floatToJson s.investment), ("count", .num s.count),
         ("cash_flow", floatToJson (TallyVerif.Totals.cashFlow floatNum asciiLower s)),
         ("by_merchant", .arr (s.byMerchant.map fun (k, c, v) => Json.arr #[.str k, .num c, floatToJson v]).toArray),
         ("by_month", .arr (s.byMonth.map fun (k, v) => Json.arr #[.str k, floatToJson v]).toArray)]

/-- op `explain`: `tally explain "<description>" --amount a` on the model -/
def handleExplain (j : Json) : Json :=
  let o := oraclesOf (tableOfJson (jget j "oracle"))
  let rb := rulebookOfJson (jget j "rulebook")
  let row : Row := { description := jstr j "description", amount := UInt64.ofNat ((jstr j "amount").toNat?.getD 0),
                     date := none, source := "", location := none, field := none }
  match classifyRow o (fnNames j) modelKey (pairsVal (jget j "supp")) rb row with
  | .error e => errJson e
  | .ok c => obj [("merchant", .str c.merchant), ("category", .str c.category), ("subcategory", .str c.subcategory),
                  ("tags", .arr ((sortStrs c.tags).map Json.str).toArray)]

/-- op `discoverlist`: the listing of `tally discover` on the model — same input as op `pipeline` -/
def handleDiscoverList (j : Json) : Json :=
  let o := oraclesOf (tableOfJson (jget j "oracle"))
  let rb := rulebookOfJson (jget j "rulebook")
  let rows : List Row := (jarr j "sources").foldl (fun acc sj =>
    if jbool sj "supplemental" then acc else
    match csvParseJson sj with
    | .error _ => acc                              -- cmd_discover: `except Exception: continue`
    | .ok txns => acc ++ txns.map rowOfCsv) []
  match discoverRows o (fnNames j) modelKey (pairsVal (jget j "supp")) rb rows with
  | .error e => errJson e
  | .ok listed =>
    obj [("transactions", .num rows.length),
         ("listed", .arr (listed.map fun (raw, cnt, tot) => Json.arr #[.str raw, .num cnt, floatToJson tot]).toArray)]

/-- op `legacyshape`: `_is_expression_pattern` on a list of Pattern cells -/
def handleLegacyShape (j : Json) : Json :=
  obj [("is_expr", .arr ((jarr j "patterns").map fun p =>
    Json.bool (isExpressionPattern (jstr p "p") (pexprOfJson (jget p "ast")))).toArray)]

end TallyVerif.Driver
