import TallyVerif.Driver.Util
import TallyVerif.Model.Totals
import TallyVerif.Model.ReportTypes
/-! `analyze`: `Totals.analyze` over IEEE doubles (same operations, same order as the Python loop). -/
namespace TallyVerif.Driver
open Lean TallyVerif TallyVerif.Totals

def txnOfJson (j : Json) : Txn Float :=
  { amount := jfloat j "amount"
    tags := match jget j "tags" with
      | .arr xs => some (xs.toList.map asStr)
      | _ => none
    merchant := jstr j "merchant", category := jstr j "category", subcategory := jstr j "subcategory",
    month := jstr j "month" }

def handleAnalyze (j : Json) : Json :=
  let txns := (jarr j "txns").map txnOfJson
  let N := floatNum
  let s := analyze N asciiLower txns
  obj [("income", floatToJson s.income), ("spending", floatToJson s.spending), ("credits", floatToJson s.credits),
       ("transfers_in", floatToJson s.transfersIn), ("transfers_out", floatToJson s.transfersOut),
       ("investment", floatToJson s.investment), ("count", .num s.count), ("total", floatToJson s.total),
       ("cash_flow", floatToJson (cashFlow N asciiLower s)), ("transfers_net", floatToJson (transfersNet N asciiLower s)),
       ("total_transactions", floatToJson (totalTransactions N s)),
       ("by_merchant", .arr (s.byMerchant.map fun (k, c, v) => .arr #[.str k, .num c, floatToJson v]).toArray),
       ("by_category", .arr (s.byCategory.map fun ((c, sc), n, v) => .arr #[.str c, .str sc, .num n, floatToJson v]).toArray),
       ("by_month", .arr (s.byMonth.map fun (k, v) => .arr #[.str k, floatToJson v]).toArray)]

/-- op `typetotals`: the per-category `typeTotals` of the report data over IEEE doubles - `Gen.ReportTypes.type_contrib`
(regenerated from report.py) accumulated per category in the order the transactions are given -/
def handleTypeTotals (j : Json) : Json :=
  let txns := (jarr j "txns").map txnOfJson
  let m := TallyVerif.ReportTypes.typeTotalsByCat floatNum asciiLower txns
  obj [("by_category", .arr (m.map fun (c, t) => .arr #[.str c, floatToJson t.spending, floatToJson t.income,
          floatToJson t.investment, floatToJson t.transfer]).toArray)]

end TallyVerif.Driver
