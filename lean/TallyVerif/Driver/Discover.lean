import TallyVerif.Driver.Util
import TallyVerif.Driver.RulesFile
import TallyVerif.Model.Discover
/-!
`discover`: the suggestion pipeline of `tally discover` on one description, shipped as a list of code
points.  `chars` = [[cp, upper cps, lower cps, title cps, cased, digit, fold cp | null], …] is what CPython
says about the non-ASCII characters of the description (the `Oracles` of the model); a character missing
from the table is reported in `miss`.  Answer: the suggested pattern, merchant name, rule lines, the decoded
literal, whether the loaded rule matches, the outcome of the rules-file model on the rule text, `Plain`,
and the same for the repaired pipeline (`f…`).
-/
namespace TallyVerif.Driver.Disc
open Lean TallyVerif.Driver TallyVerif.RulesFile TallyVerif.Discover TallyVerif.Driver.RF

structure CharRow where
  cp : Nat
  up : Str
  low : Str
  title : Str
  cased : Bool
  digit : Bool
  fold : Option Char

def charRows (j : Json) : List CharRow :=
  (jarr j "chars").filterMap fun e =>
    match e with
    | .arr #[.num cp, up, low, ti, .bool cased, .bool digit, fold] =>
      some { cp := cp.mantissa.toNat, up := cpsOfJson up, low := cpsOfJson low, title := cpsOfJson ti,
             cased := cased, digit := digit,
             fold := match fold with | .num n => some (Char.ofNat n.mantissa.toNat) | _ => none }
    | _ => none

def oraclesOf (rows : List CharRow) : Oracles :=
  let find (c : Char) : Option CharRow := rows.find? (·.cp == c.toNat)
  { upNA := fun c => match find c with | some r => r.up | none => [c]
    lowNA := fun c => match find c with | some r => r.low | none => [c]
    titleNA := fun c => match find c with | some r => r.title | none => [c]
    casedNA := fun c => match find c with | some r => r.cased | none => false
    digitNA := fun c => match find c with | some r => r.digit | none => false
    foldNA := fun c => match find c with | some r => r.fold | none => none }

def optCps : Option Str → Json
  | some s => cpsToJson s
  | none => .null

end TallyVerif.Driver.Disc

namespace TallyVerif.Driver
open Lean TallyVerif.RulesFile TallyVerif.Discover TallyVerif.Driver.RF TallyVerif.Driver.Disc

def handleDiscover (j : Json) : Json :=
  let d := cpsOfJson (jget j "desc")
  let rows := charRows j
  let o := oraclesOf rows
  let tags := (jarr j "tags").map cpsOfJson
  let cat := cpsOfJson (jget j "cat")
  let sub := cpsOfJson (jget j "sub")
  let miss := d.any fun c => !isAscii c && !(rows.any (·.cp == c.toNat))
  let p := Impl.suggestPattern o d
  let name := Impl.suggestMerchantName o d
  let rule := Impl.suggestRule name p tags
  let filled := ruleLines (matchExprText p) name cat sub tags
  let fp := Fixed.suggestPattern o d
  let ffilled := ruleLines (Fixed.matchExprText fp) name cat sub tags
  obj [("pattern", cpsToJson p), ("name", cpsToJson name),
       ("rule", .arr (rule.map cpsToJson).toArray),
       ("literal", optCps (literalOf p)),
       ("matches", .bool (matchesSuggested o d)),
       ("plain", .bool (plainB o d)),
       ("parse", rulesOut (TallyVerif.RulesFile.Impl.parseRulesFile (fun _ => true) filled)),
       ("clean", cpsToJson (clean o d)),
       ("fpattern", cpsToJson fp),
       ("fexpr", cpsToJson (Fixed.matchExprText fp)),
       ("fregex", .bool (Fixed.isRegexSyntax fp)),
       ("frawok", .bool (Fixed.rawLitOk (quoteEsc fp))),
       ("fwords", .arr ((Fixed.regexWords o d).map cpsToJson).toArray),
       ("flang", .bool (Fixed.langSearch (Fixed.regexWords o d) (upper o d))),
       ("fcontains", .bool (match literalOf fp with | some lit => containsCI o lit d | none => false)),
       ("kpattern", cpsToJson (Fixed.suggestPatternKeep o d)),
       ("kexpr", cpsToJson (Fixed.matchExprText (Fixed.suggestPatternKeep o d))),
       ("kregex", .bool (Fixed.isRegexSyntax (Fixed.suggestPatternKeep o d))),
       ("krawok", .bool (Fixed.rawLitOk (quoteEsc (Fixed.suggestPatternKeep o d)))),
       ("kwords", .arr ((Fixed.regexWordsKeep o d).map cpsToJson).toArray),
       ("klang", .bool (Fixed.langSearch (Fixed.regexWordsKeep o d) (Fixed.upperKeep o d))),
       ("kcontains", .bool (match literalOf (Fixed.suggestPatternKeep o d) with | some lit => containsCI o lit d | none => false)),
       ("fparse", rulesOut (TallyVerif.RulesFile.Impl.parseRulesFile (fun _ => true) ffilled)),
       ("miss", .bool miss)]

end TallyVerif.Driver
