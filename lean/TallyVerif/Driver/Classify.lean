import TallyVerif.Driver.Util
import TallyVerif.Model.Num
import TallyVerif.Gen.ClassPy
import TallyVerif.Gen.ClassJs
/-! `classify`: run the two GENERATED classification programs on one (amount, tags) pair.

Lower-casing is an external function of each language (Python `str.lower`, JavaScript
`toLowerCase`) and the two are NOT the same function (they follow the Unicode tables of their own
runtime).  The harness therefore records, per case, what each language's own function returned for
every tag (`lower_py`, `lower_js`: lists of `[tag, image]` pairs, computed by the harness itself -
not by the code under test) and the Python model runs with the Python table, the JavaScript model
with the JavaScript table.  A tag missing from a table (old replay files carry none) falls back to
ASCII lower-casing. -/
namespace TallyVerif.Driver
open Lean TallyVerif TallyVerif.Gen

def bucketsJson (b : Buckets Float) : Json :=
  obj [("income", floatToJson b.income), ("investment", floatToJson b.investment),
       ("transfer_in", floatToJson b.transfer_in), ("transfer_out", floatToJson b.transfer_out),
       ("spending", floatToJson b.spending), ("credits", floatToJson b.credits)]

def lowerTable (j : Json) (k : String) : List (String × String) :=
  (jarr j k).filterMap fun p =>
    match p with
    | .arr #[a, b] => some (asStr a, asStr b)
    | _ => none

def lowerWith (tbl : List (String × String)) (s : String) : String :=
  (tbl.lookup s).getD (asciiLower s)

def handleClassify (j : Json) : Json :=
  let a := jfloat j "amount"
  let tags : Option (List String) :=
    match jget j "tags" with
    | .arr xs => some (xs.toList.map asStr)
    | _ => none
  let N := floatNum
  let lo := lowerWith (lowerTable j "lower_py")
  let loJs := lowerWith (lowerTable j "lower_js")
  obj [("py", obj [("cat", bucketsJson (ClassPy.categorize_amount N lo a tags)),
                   ("norm", floatToJson (ClassPy.normalize_amount N lo a tags)),
                   ("excluded", .bool (ClassPy.is_excluded_from_spending N lo tags)),
                   ("income", .bool (ClassPy.is_income N lo tags)),
                   ("transfer", .bool (ClassPy.is_transfer N lo tags)),
                   ("investment", .bool (ClassPy.is_investment N lo tags)),
                   ("cashflow", floatToJson (ClassPy.calculate_cash_flow N lo a (jfloat j "b") (jfloat j "c"))),
                   ("net", floatToJson (ClassPy.calculate_transfers_net N lo a (jfloat j "b")))]),
       ("js", obj [("cat", bucketsJson (ClassJs.categorizeAmount N loJs a tags)),
                   ("excluded", .bool (ClassJs.isExcludedFromSpending N loJs tags)),
                   ("income", .bool (ClassJs.isIncome N loJs tags)),
                   ("transfer", .bool (ClassJs.isTransfer N loJs tags)),
                   ("investment", .bool (ClassJs.isInvestment N loJs tags)),
                   ("cashflow", floatToJson (ClassJs.calculateCashFlow N loJs a (jfloat j "b") (jfloat j "c")))]),
       ("special_agree", .bool (specialAgree loJs lo tags))]

end TallyVerif.Driver
