import TallyVerif.Driver.Util
import TallyVerif.Model.Num
import TallyVerif.Gen.ClassPy
import TallyVerif.Gen.ClassJs
/-! `classify`: run the two GENERATED classification programs on one (amount, tags) pair. -/
namespace TallyVerif.Driver
open Lean TallyVerif TallyVerif.Gen

def bucketsJson (b : Buckets Float) : Json :=
  obj [("income", floatToJson b.income), ("investment", floatToJson b.investment),
       ("transfer_in", floatToJson b.transfer_in), ("transfer_out", floatToJson b.transfer_out),
       ("spending", floatToJson b.spending), ("credits", floatToJson b.credits)]

def handleClassify (j : Json) : Json :=
  let a := jfloat j "amount"
  let tags : Option (List String) :=
    match jget j "tags" with
    | .arr xs => some (xs.toList.map asStr)
    | _ => none
  let N := floatNum
  let lo := asciiLower
  obj [("py", obj [("cat", bucketsJson (ClassPy.categorize_amount N lo a tags)),
                   ("norm", floatToJson (ClassPy.normalize_amount N lo a tags)),
                   ("excluded", .bool (ClassPy.is_excluded_from_spending N lo tags)),
                   ("income", .bool (ClassPy.is_income N lo tags)),
                   ("transfer", .bool (ClassPy.is_transfer N lo tags)),
                   ("investment", .bool (ClassPy.is_investment N lo tags)),
                   ("cashflow", floatToJson (ClassPy.calculate_cash_flow N lo a (jfloat j "b") (jfloat j "c"))),
                   ("net", floatToJson (ClassPy.calculate_transfers_net N lo a (jfloat j "b")))]),
       ("js", obj [("cat", bucketsJson (ClassJs.categorizeAmount N lo a tags)),
                   ("excluded", .bool (ClassJs.isExcludedFromSpending N lo tags)),
                   ("income", .bool (ClassJs.isIncome N lo tags)),
                   ("transfer", .bool (ClassJs.isTransfer N lo tags)),
                   ("investment", .bool (ClassJs.isInvestment N lo tags)),
                   ("cashflow", floatToJson (ClassJs.calculateCashFlow N lo a (jfloat j "b") (jfloat j "c")))])]

end TallyVerif.Driver
