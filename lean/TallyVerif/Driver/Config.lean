import TallyVerif.Driver.Util
import TallyVerif.Driver.Fmt
import TallyVerif.Model.Config
/-! ops `config` (`Config.resolveConfig` + `Config.planSources` + `Config.readArgs` on a loaded settings object) and `paths`
(`pjoin2` / `dirname` / `normpath`).

A YAML value travels as JSON: `null`, `true`/`false`, `{"i": "<decimal>"}`, `{"f": "<IEEE bits, decimal>"}`, `"text"`, `[…]`,
`{"m": [[key, value], …]}` (a mapping, in order).  `exists` / `views_ok` are lookup tables `[[path, bool], …]` (a miss is
`false`); `candidates` in the answer lists every path the model may ask about, so that the harness can fill the tables. -/
namespace TallyVerif.Driver
open Lean TallyVerif TallyVerif.Config

partial def yOfJson : Json → Y
  | .null => .null
  | .bool b => .bool b
  | .str s => .str s.toList
  | .arr a => .list (a.toList.map yOfJson)
  | .num n => .int n.mantissa
  | j@(.obj _) =>
    match j.getObjVal? "i" with
    | .ok (.str s) => .int (s.toInt?.getD 0)
    | _ =>
      match j.getObjVal? "f" with
      | .ok (.str s) => .float (s.toNat?.getD 0)
      | _ =>
        match j.getObjVal? "m" with
        | .ok (.arr kvs) => .map (kvs.toList.map fun p => match p with
            | .arr #[.str k, v] => (k.toList, yOfJson v)
            | _ => ([], .null))
        | _ => .null

partial def yToJson : Y → Json
  | .null => .null
  | .bool b => .bool b
  | .int n => obj [("i", .str (toString n))]
  | .float b => obj [("f", .str (toString b))]
  | .str s => .str (String.ofList s)
  | .list xs => .arr (xs.map yToJson).toArray
  | .map kvs => obj [("m", .arr (kvs.map fun (k, v) => Json.arr #[.str (String.ofList k), yToJson v]).toArray)]

private def boolTable (j : Json) (k : String) : List (String × Bool) :=
  (jarr j k).filterMap fun p => match p with
    | .arr #[.str a, .bool b] => some (a, b)
    | _ => none

def pyExcName : PyExc → String
  | .valueError => "ValueError" | .attributeError => "AttributeError" | .typeError => "TypeError"
  | .keyError => "KeyError" | .systemExit => "SystemExit" | .other c => String.ofList c

private def cfgErrSite : CfgErr → String
  | .notAMapping => "not_a_mapping" | .removedKey k => "removed_key:" ++ String.ofList k | .formatNotStr => "format_not_str"
  | .badFormat _ => "bad_format" | .templateNotStr => "template_not_str" | .typeNotStr => "type_not_str"
  | .unknownType => "unknown_type" | .noFormat => "no_format" | .sourcesNotIterable => "sources_not_iterable"
  | .pathNotStr k => "path_not_str:" ++ String.ofList k
  | .viewsRaises _ => "views_raises"

private def runErrSite : RunErr → String
  | .descriptionCleaning => "description_cleaning" | .noDataSources => "no_data_sources"
  | .keyError k => "key_error:" ++ String.ofList k | .typeError => "type_error" | .attributeError => "attribute_error"

def genericToJson (g : GenericSpec) : Json :=
  obj [("spec", specToJson g.base), ("template", yToJson g.template), ("delimiter", yToJson g.delimiter),
       ("has_header", yToJson g.hasHeader), ("negate_amount", yToJson g.negateAmount)]

private def optY : Option Y → Json
  | some y => obj [("v", yToJson y)]
  | none => .null

def sourceCfgToJson (s : SourceCfg) : Json :=
  obj [("name", optY s.name), ("file", optY s.file),
       ("parser_type", match s.parser with | .special t => .str (String.ofList t) | .generic _ => .str "generic"),
       ("format_spec", match s.parser with | .special _ => .null | .generic g => genericToJson g),
       ("supplemental", yToJson s.supplemental), ("decimal_separator", yToJson s.decimalSeparator)]

def delimToJson : Csv.Delim → Json
  | .regex => .str "regex"
  | .csv d => .str (String.singleton d)

def plannedToJson (p : Planned) : Json :=
  match p.call with
  | .amex => obj [("index", .num p.index), ("path", jS p.path), ("call", .str "amex")]
  | .boa => obj [("index", .num p.index), ("path", jS p.path), ("call", .str "boa")]
  | .generic g nm ds =>
    obj [("index", .num p.index), ("path", jS p.path), ("call", .str "generic"), ("format_spec", genericToJson g),
         ("source_name", yToJson nm), ("decimal_separator", yToJson ds),
         ("read", match readArgs g nm ds with
           | .error e => obj [("err", .str (pyExcName e))]
           | .ok r => obj [("delim", delimToJson r.delim), ("has_header", .bool r.hasHeader), ("eu", .bool r.eu),
                           ("negate", .bool r.spec.negateAmount), ("abs", .bool r.spec.absAmount)])]

/-- every path the model can ask `os.path.exists` about on this settings object -/
def candidatePaths (cfgDir : Str) (y : Y) : List Str :=
  match y with
  | .map c =>
    let one (k : Str) : List Str := match get k c with
      | some (.str s) => [pjoin2 (dirname cfgDir) s]
      | _ => []
    let srcs : List Str := match get kDataSources c with
      | some (.list xs) => xs.flatMap fun x => match x with
          | .map s => (match get kFile s with
              | some (.str f) => [normpath (pjoin cfgDir [Gen.ConfigTables.PARENT_DIR, f]), pjoin2 (dirname cfgDir) f]
              | _ => [])
          | _ => []
      | _ => []
    one kMerchantsFile ++ [pjoin2 cfgDir Gen.ConfigTables.LEGACY_CSV_NAME] ++ one kViewsFile ++ srcs
  | _ => []

def envOfJson (j : Json) : Env :=
  let ex := boolTable j "exists"
  let vo : List (String × String) := (jarr j "views_ok").filterMap fun p => match p with
    | .arr #[.str a, .str b] => some (a, b)
    | _ => none
  { ext := extOfJson j, cfgDir := (jstr j "cfgdir").toList,
    pathExists := fun p => (ex.lookup (String.ofList p)).getD false,
    viewsLoad := fun p => match vo.lookup (String.ofList p) with
      | some "ok" => .loaded
      | some "parse_error" => .parseError
      | some cls => .raises cls.toList
      | none => .raises "unanswered".toList }

def rulesFileToJson : RulesFile → Json
  | .new p => obj [("path", jS p), ("format", .str "new")]
  | .csv p => obj [("path", jS p), ("format", .str "csv")]
  | .none => obj [("path", .null), ("format", .null)]

def configToJson (c : Config) : Json :=
  obj [("sources", .arr (c.sources.map sourceCfgToJson).toArray),
       ("rule_mode", .str (match c.ruleMode with | .firstMatch => "first_match" | .mostSpecific => "most_specific")),
       ("merchants", rulesFileToJson c.rulesFile),
       ("rules_kind", .str (match c.rulesFile.kind with | .engine _ => "engine" | .legacyCsv _ => "legacy" | .noRules => "none")),
       ("views_file", match c.viewsFile with | some p => jS p | none => .null),
       ("warnings", .arr (c.warnings.map fun w => jS w.type).toArray),
       ("removed_settings", .arr (c.warnings.flatMap fun w => match w with
          | .removedSettings ks => ks.map jS
          | _ => []).toArray),
       ("description_cleaning", .bool c.descriptionCleaning.truthy)]

def handleConfig (j : Json) : Json :=
  let env := envOfJson j
  let y := yOfJson (jget j "settings")
  let cands := candidatePaths env.cfgDir y
  let vcands : List Str := match y with
    | .map c => (match get kViewsFile c with
        | some (.str s) => [pjoin2 (dirname env.cfgDir) s]
        | _ => [])
    | _ => []
  let base := [("candidates", Json.arr (cands.map jS).toArray), ("views_candidates", Json.arr (vcands.map jS).toArray)]
  match resolveConfig env y with
  | .error e => obj (base ++ [("config", obj [("err", .str (pyExcName e.cls)), ("site", .str (cfgErrSite e))])])
  | .ok c =>
    let plan (quiet : Bool) : Json := match planSources quiet env c with
      | .error e => obj [("err", .str (pyExcName e.cls)), ("site", .str (runErrSite e))]
      | .ok ps => obj [("ok", .arr (ps.map plannedToJson).toArray)]
    obj (base ++ [("config", obj [("ok", configToJson c)]), ("plan_quiet", plan true), ("plan_verbose", plan false)])

/-- op `resolvesource`: `Config.resolveSource` on one source entry -/
def handleResolveSource (j : Json) : Json :=
  match resolveSource (extOfJson j) (yOfJson (jget j "source")) with
  | .error e => obj [("err", .str (pyExcName e.cls)), ("site", .str (cfgErrSite e))]
  | .ok s => obj [("ok", sourceCfgToJson s)]

/-- op `paths`: the `posixpath` functions -/
def handlePaths (j : Json) : Json :=
  obj [("out", .arr ((jarr j "items").map fun it =>
    let a := (jstr it "a").toList
    let b := (jstr it "b").toList
    obj [("join", jS (pjoin2 a b)), ("dirname", jS (dirname a)), ("normpath", jS (normpath a)),
         ("join3", jS (pjoin a [Gen.ConfigTables.PARENT_DIR, b]))]).toArray)]

/-- op `truthy`: `Y.truthy` of a list of values -/
def handleTruthy (j : Json) : Json :=
  obj [("out", .arr ((jarr j "values").map fun v => Json.bool (yOfJson v).truthy).toArray)]

end TallyVerif.Driver
