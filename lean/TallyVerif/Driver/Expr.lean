import TallyVerif.Driver.Util
import TallyVerif.Model.Expr
import TallyVerif.Model.ExprNames
import TallyVerif.Gen.ExprTables
/-! JSON codec for expression ASTs, values, contexts and oracle tables; op `eval`. -/
namespace TallyVerif.Driver
open Lean TallyVerif.Py TallyVerif.Expr

instance : Inhabited Val := ⟨.none⟩
instance : Inhabited Expr := ⟨.const .none⟩
instance : Inhabited Comp := ⟨.mk none (.const .none) []⟩

partial def valOfJson (j : Json) : Val :=
  match jstr j "t" with
  | "none" => .none
  | "bool" => .bool (jbool j "v")
  | "int" => .int ((jstr j "v").toInt?.getD 0)
  | "flt" => .flt (UInt64.ofNat ((jstr j "v").toNat?.getD 0))
  | "str" => .str (jstr j "v")
  | "date" => match jarr j "v" with
    | [y, m, d] => .date ⟨(y.getNat?.toOption.getD 0), (m.getNat?.toOption.getD 0), (d.getNat?.toOption.getD 0)⟩
    | _ => .none
  | "td" => .tdelta ((jstr j "v").toInt?.getD 0)
  | "list" => .list ((jarr j "v").map valOfJson)
  | "row" => .row ((jarr j "v").map fun kv => match kv with
    | .arr a => (asStr (a.getD 0 .null), valOfJson (a.getD 1 .null))
    | _ => ("", .none))
  | "gen" => .gen []
  | "other" => .other (jstr j "v")
  | _ => .none

def intJson (i : Int) : Json := .str (if i < 0 then "-" ++ toString (-i).toNat else toString i.toNat)

partial def valToJson : Val → Json
  | .none => obj [("t", .str "none")]
  | .bool b => obj [("t", .str "bool"), ("v", .bool b)]
  | .int i => obj [("t", .str "int"), ("v", intJson i)]
  | .flt b => obj [("t", .str "flt"), ("v", if (F b).isNaN then .str "nan" else .str (toString b.toNat))]
  | .str s => obj [("t", .str "str"), ("v", .str s)]
  | .date d => obj [("t", .str "date"), ("v", .arr #[.num d.y, .num d.m, .num d.d])]
  | .tdelta d => obj [("t", .str "td"), ("v", intJson d)]
  | .list xs => obj [("t", .str "list"), ("v", .arr (xs.map valToJson).toArray)]
  | .row kvs => obj [("t", .str "row"), ("v", .arr (kvs.map fun (k, v) => Json.arr #[.str k, valToJson v]).toArray)]
  | .gen _ => obj [("t", .str "gen")]
  | .other k => obj [("t", .str "other"), ("v", .str k)]

def cmpOpOf : String → CmpOp
  | "Eq" => .eq | "NotEq" => .ne | "Lt" => .lt | "LtE" => .le | "Gt" => .gt | "GtE" => .ge
  | "In" => .isIn | _ => .notIn

def binOpOf : String → BinOp
  | "Add" => .add | "Sub" => .sub | "Mult" => .mul | "Div" => .div | _ => .mod

mutual
partial def exprOfJson (j : Json) : Expr :=
  match jstr j "k" with
  | "Constant" => .const (valOfJson (jget j "v"))
  | "Name" => .name (jstr j "id")
  | "Attribute" =>
    let v := jget j "value"
    if jstr v "k" == "Name" then .attrName (jstr v "id") (jstr j "attr")
    else .attr (exprOfJson v) (jstr j "attr")
  | "Call" =>
    let f := jget j "func"
    let args := jarr j "args"
    match jstr f "k" with
    | "Name" =>
      (match args with
       | a :: more =>
         if jstr a "k" == "GeneratorExp" then
           .callNameGen (jstr f "id") (exprOfJson (jget a "elt")) ((jarr a "generators").map compOfJson) (more.map exprOfJson)
         else .callName (jstr f "id") (args.map exprOfJson)
       | [] => .callName (jstr f "id") [])
    | "Attribute" => .callAttr (exprOfJson (jget f "value")) (jstr f "attr") (args.map exprOfJson)
    | _ => .callOther (exprOfJson f) (args.map exprOfJson)
  | "BoolOp" => .boolop (jstr j "op" == "And") ((jarr j "values").map exprOfJson)
  | "UnaryOp" => .unop (if jstr j "op" == "Not" then .not else .neg) (exprOfJson (jget j "operand"))
  | "BinOp" => .binop (binOpOf (jstr j "op")) (exprOfJson (jget j "left")) (exprOfJson (jget j "right"))
  | "Compare" =>
    let ops := (jarr j "ops").map asStr
    let cs := (jarr j "comparators").map exprOfJson
    .cmp (exprOfJson (jget j "left")) ((ops.zip cs).map fun (o, c) => Link.mk (cmpOpOf o) c)
  | "IfExp" => .ifexp (exprOfJson (jget j "test")) (exprOfJson (jget j "body")) (exprOfJson (jget j "orelse"))
  | "ListComp" => .listcomp (exprOfJson (jget j "elt")) ((jarr j "generators").map compOfJson)
  | "GeneratorExp" => .genexp (exprOfJson (jget j "elt")) ((jarr j "generators").map compOfJson)
  | "Subscript" => .subscript (exprOfJson (jget j "value")) (exprOfJson (jget j "slice"))
  | "NamedExpr" => .walrus (jstr (jget j "target") "id") (exprOfJson (jget j "value"))
  | k => .callOther (.const (.other ("unexpected node " ++ k))) []
partial def compOfJson (j : Json) : Comp :=
  let t := jget j "target"
  .mk (if jstr t "k" == "Name" then some (jstr t "id") else none) (exprOfJson (jget j "iter"))
    ((jarr j "ifs").map exprOfJson)
end

def pairsVal (j : Json) : List (String × Val) :=
  match j with
  | .arr a => a.toList.map fun kv => match kv with
    | .arr p => (asStr (p.getD 0 .null), valOfJson (p.getD 1 .null))
    | _ => ("", .none)
  | _ => []

def ctxOfJson (j : Json) (functionNames : List String) : Ctx :=
  { description := jstr j "description"
    amount := valOfJson (jget j "amount")
    date := match valOfJson (jget j "date") with | .date d => some d | _ => none
    source := jstr j "source"
    location := jstr j "location"
    field := match jget j "field" with | .null => none | f => some (pairsVal f)
    variables := pairsVal (jget j "variables")
    sources := pairsVal (jget j "sources")
    functionNames := functionNames }

/-- oracle table: `[[prim, [args…], result], …]` -/
structure Table where
  rows : List (String × List String × Json)

def tableOfJson (j : Json) : Table :=
  ⟨match j with
   | .arr a => a.toList.map fun r => match r with
     | .arr x => (asStr (x.getD 0 .null), asStrList (x.getD 1 .null), x.getD 2 .null)
     | _ => ("", [], .null)
   | _ => []⟩

def Table.find (t : Table) (prim : String) (args : List String) : Option Json :=
  (t.rows.find? (fun r => r.1 == prim && r.2.1 == args)).map (·.2.2)

def oraclesOf (t : Table) : Oracles :=
  { upper := fun s => (t.find "upper" [s]).map asStr
    lower := fun s => (t.find "lower" [s]).map asStr
    reSearch := fun p x => (t.find "re_search" [p, x]).map fun r => match r with
      | .bool b => some b
      | _ => none
    reExtract := fun p x => (t.find "re_extract" [p, x]).map fun r => match r with
      | .str s => some s
      | _ => none
    reSub := fun p r x => (t.find "re_sub" [p, r, x]).map fun v => match v with
      | .str s => some s
      | _ => none
    ratio := fun a b => (t.find "ratio" [a, b]).map fun r => UInt64.ofNat ((asStr r).toNat?.getD 0)
    isoDate := fun s => (t.find "isodate" [s]).map fun r => match r with
      | .arr #[y, m, d] => some ⟨y.getNat?.toOption.getD 0, m.getNat?.toOption.getD 0, d.getNat?.toOption.getD 0⟩
      | _ => none
    fltStr := fun b => (t.find "fltstr" [toString b.toNat]).map asStr
    fmod := fun a b => (t.find "fmod" [toString a.toNat, toString b.toNat]).map fun r => UInt64.ofNat ((asStr r).toNat?.getD 0)
    round := fun b n => (t.find "round" (match n with
        | none => [toString b.toNat]
        | some k => [toString b.toNat, if k < 0 then "-" ++ toString (-k).toNat else toString k.toNat])).map valOfJson }

def errJson (e : Err) : Json :=
  match e with
  | .expr _ => obj [("err", .str "expr")]
  | .py c => obj [("err", .str "py"), ("cls", .str c.name)]
  | .unmodelled why =>
    if why.startsWith "need\u0001" then
      obj [("need", .arr (((why.splitOn "\u0001").drop 1).map Json.str).toArray)]
    else obj [("err", .str "unmodelled"), ("why", .str why)]

def resultJson : Except Err Val → Json
  | .ok v => obj [("ok", valToJson v)]
  | .error e => errJson e

/-! canonical text of a model AST (every constructor, every identifier, every constant): used only to compare
`Expr.mapNames` with a Python `ast.NodeTransformer` tree against tree (op `eval` with `"dump": true`) -/
def dumpStr (s : String) : String := (Json.str s).compress
def cmpOpName : CmpOp → String
  | .eq => "Eq" | .ne => "NotEq" | .lt => "Lt" | .le => "LtE" | .gt => "Gt" | .ge => "GtE" | .isIn => "In" | .notIn => "NotIn"
def binOpName : BinOp → String
  | .add => "Add" | .sub => "Sub" | .mul => "Mult" | .div => "Div" | .mod => "Mod"
mutual
def dumpExpr : Expr → String
  | .const v => "(const " ++ (valToJson v).compress ++ ")"
  | .name id => "(name " ++ dumpStr id ++ ")"
  | .attr e a => "(attr " ++ dumpExpr e ++ " " ++ dumpStr a ++ ")"
  | .attrName id a => "(attrName " ++ dumpStr id ++ " " ++ dumpStr a ++ ")"
  | .callName g args => "(callName " ++ dumpStr g ++ " [" ++ dumpList args ++ "])"
  | .callNameGen g elt gens more =>
    "(callNameGen " ++ dumpStr g ++ " " ++ dumpExpr elt ++ " [" ++ dumpComps gens ++ "] [" ++ dumpList more ++ "])"
  | .callAttr recv meth args => "(callAttr " ++ dumpExpr recv ++ " " ++ dumpStr meth ++ " [" ++ dumpList args ++ "])"
  | .callOther g args => "(callOther " ++ dumpExpr g ++ " [" ++ dumpList args ++ "])"
  | .boolop isAnd es => "(boolop " ++ (if isAnd then "And" else "Or") ++ " [" ++ dumpList es ++ "])"
  | .unop op e => "(unop " ++ (match op with | .not => "Not" | .neg => "USub") ++ " " ++ dumpExpr e ++ ")"
  | .binop op l r => "(binop " ++ binOpName op ++ " " ++ dumpExpr l ++ " " ++ dumpExpr r ++ ")"
  | .cmp l links => "(cmp " ++ dumpExpr l ++ " [" ++ dumpLinks links ++ "])"
  | .ifexp c t e => "(ifexp " ++ dumpExpr c ++ " " ++ dumpExpr t ++ " " ++ dumpExpr e ++ ")"
  | .listcomp elt gens => "(listcomp " ++ dumpExpr elt ++ " [" ++ dumpComps gens ++ "])"
  | .genexp elt gens => "(genexp " ++ dumpExpr elt ++ " [" ++ dumpComps gens ++ "])"
  | .subscript e i => "(subscript " ++ dumpExpr e ++ " " ++ dumpExpr i ++ ")"
  | .walrus id e => "(walrus " ++ dumpStr id ++ " " ++ dumpExpr e ++ ")"
def dumpList : List Expr → String
  | [] => ""
  | e :: es => dumpExpr e ++ " " ++ dumpList es
def dumpLinks : List Link → String
  | [] => ""
  | .mk op e :: rest => "(" ++ cmpOpName op ++ " " ++ dumpExpr e ++ ") " ++ dumpLinks rest
def dumpComps : List Comp → String
  | [] => ""
  | .mk target iter ifs :: gs =>
    "(for " ++ (match target with | some x => dumpStr x | none => "?") ++ " " ++ dumpExpr iter ++ " [" ++ dumpList ifs ++ "]) " ++
      dumpComps gs
end

/-- function-name table shipped with the case (regenerated from source by the harness) -/
def fnNames (_ : Json) : List String := TallyVerif.Gen.ExprTables.functionNames

def handleEval (j : Json) : Json :=
  let ctx := ctxOfJson (jget j "ctx") (fnNames j)
  let o := oraclesOf (tableOfJson (jget j "oracle"))
  let e := exprOfJson (jget j "expr")
  -- optional `rename`: the model's own `Expr.mapNames` is applied before evaluation ("upper" / "lower", or a table
  -- `[[from, to], …]` of per-identifier respellings) — compared by C04 with a Python `ast.NodeTransformer`
  let e := match jget j "rename" with
    | .str "upper" => e.mapNames String.toUpper
    | .str "lower" => e.mapNames lowerName
    | .arr a =>
      let tbl := a.toList.map fun kv => match kv with
        | .arr p => (asStr (p.getD 0 .null), asStr (p.getD 1 .null))
        | _ => ("", "")
      e.mapNames (fun id => (tbl.lookup id).getD id)
    | _ => e
  if jbool j "dump" then obj [("dump", .str (dumpExpr e))] else
  let (r, scope) := eval o ctx e []
  let r := if jbool j "convert_py" then (match r with
      | .error (.py _) => Except.error (Err.expr "converted")
      | x => x) else r
  (resultJson r).setObjVal! "scope" (.arr (scope.map fun (k, v) => Json.arr #[.str k, valToJson v]).toArray)

end TallyVerif.Driver
