import TallyVerif.Driver.Util
import TallyVerif.Driver.RulesFile
import TallyVerif.Model.Legacy
/-!
`legacycsv` (properties C14 / C01): the executable M-Legacy model.  Text travels as lists of code points.  `kind` selects:

* `pattern`  text                    → `Legacy.parsePattern` of one pattern cell
* `file`     text                    → `Legacy.loadRules` of the decoded content of a rule file
* `ciset`                            → per letter of `last…days`, the code points below 0x3000 that `Legacy.ciMatch` accepts
* `lines`    text                    → `Legacy.univNl` + `Legacy.physLines` + `Legacy.keepLine` (the file iterator and the filter)

Oracle tables (CPython primitives only, computed by the harness for the texts that occur in the case):
`digits` = [[code point, decimal value], …] (non-ASCII Nd characters), `floats` = [[text, bits | null, repr], …]
(`float()` of every maximal `[\d.]+` run), `strptime` = [[text, [y, m, d] | null], …] (date-shaped texts with a non-ASCII
digit), `maxdigits` = `sys.get_int_max_str_digits()`.  A text the model asks about that is not in its table answers with a
sentinel value (`-1` / `0000-00-00`), which then shows in the output as a disagreement.
-/
namespace TallyVerif.Driver.Leg
open Lean TallyVerif.Driver TallyVerif.Legacy
open TallyVerif.Driver.RF (cpsOfJson cpsToJson)
open TallyVerif.Csv (Str)
open TallyVerif.Migrate (Date AmountCond DateCond Parsed)
abbrev NumLit := TallyVerif.Migrate.NumLit

def natOfJ : Json → Nat
  | .num n => n.mantissa.toNat
  | _ => 0

def oraclesOf (j : Json) : Oracles :=
  let digits : List (Nat × Nat) := (jarr j "digits").map fun e =>
    match e with
    | .arr a => (natOfJ (a.getD 0 .null), natOfJ (a.getD 1 .null))
    | _ => (0, 0)
  let floats : List (Str × Option NumLit) := (jarr j "floats").map fun e =>
    match e with
    | .arr a =>
      (cpsOfJson (a.getD 0 .null),
       match a.getD 1 .null with
       | .str s => some ⟨s.toInt?.getD (-2), cpsOfJson (a.getD 2 .null)⟩
       | _ => none)
    | _ => ([], none)
  let dates : List (Str × Option Date) := (jarr j "strptime").map fun e =>
    match e with
    | .arr a =>
      (cpsOfJson (a.getD 0 .null),
       match a.getD 1 .null with
       | .arr d => some ⟨natOfJ (d.getD 0 .null), natOfJ (d.getD 1 .null), natOfJ (d.getD 2 .null)⟩
       | _ => none)
    | _ => ([], none)
  { digitNA := fun c => digits.lookup c.toNat
    pyFloat := fun t => (floats.lookup t).getD (some ⟨-1, "MISS".toList⟩)
    strptimeNA := fun t => (dates.lookup t).getD (some ⟨0, 0, 0⟩)
    maxStrDigits := natOfJ (jget j "maxdigits") }

def numJ (v : NumLit) : Json := .str (toString v.val)
def dateJ (d : Date) : Json := .arr #[.num d.y, .num d.m, .num d.d]

def amountJ : AmountCond → Json
  | .gt v => obj [("op", .str ">"), ("v", numJ v)]
  | .ge v => obj [("op", .str ">="), ("v", numJ v)]
  | .lt v => obj [("op", .str "<"), ("v", numJ v)]
  | .le v => obj [("op", .str "<="), ("v", numJ v)]
  | .eq v => obj [("op", .str "="), ("v", numJ v)]
  | .range lo hi => obj [("op", .str ":"), ("lo", numJ lo), ("hi", numJ hi)]

def dateCondJ : DateCond → Json
  | .on d => obj [("op", .str "="), ("d", dateJ d)]
  | .range a b => obj [("op", .str ":"), ("a", dateJ a), ("b", dateJ b)]
  | .month m => obj [("op", .str "month"), ("m", .num m)]
  | .relative n => obj [("op", .str "relative"), ("n", .str (toString n))]

def parsedFields (p : Parsed) : List (String × Json) :=
  [("amount", .arr (p.amount.map amountJ).toArray), ("date", .arr (p.date.map dateCondJ).toArray)]

def modErrName : ModErr → String
  | .syntax => "syntax" | .value => "value" | .month => "month"

def optCps : Option Str → Json
  | some s => cpsToJson s
  | none => .null

def loadedJ (l : Loaded) : Json :=
  obj ([("pattern", cpsToJson l.pattern), ("merchant", optCps l.merchant), ("category", optCps l.category),
        ("subcategory", optCps l.subcategory), ("tags", .arr (l.tags.map cpsToJson).toArray)] ++ parsedFields l.parsed)

def handleLegacyCsv (j : Json) : Json :=
  let o := oraclesOf j
  let text := cpsOfJson (jget j "text")
  match jstr j "kind" with
  | "pattern" =>
    match parsePattern o text with
    | .ok (rx, p) => obj [("ok", obj ([("pattern", cpsToJson rx)] ++ parsedFields p))]
    | .error e => obj [("err", .str "ModifierParseError"), ("why", .str (modErrName e))]
  | "file" =>
    match loadRules o text with
    | .ok rs => obj [("ok", .arr (rs.map loadedJ).toArray)]
    | .error .attributeError => obj [("err", .str "AttributeError")]
    | .error .keyError => obj [("err", .str "KeyError")]
  | "lines" =>
    let ls := physLines (univNl text)
    obj [("lines", .arr (ls.map cpsToJson).toArray), ("keep", .arr (ls.map fun l => Json.bool (keepLine l)).toArray)]
  | "ciset" =>
    let cps := List.range 0x3000
    obj (['l', 'a', 's', 't', 'd', 'y'].map fun a =>
      (String.singleton a, Json.arr ((cps.filter fun n => ciMatch a (Char.ofNat n)).map fun (n : Nat) => Json.num (Int.ofNat n)).toArray))
  | k => obj [("err", .str s!"unknown legacycsv kind {k}")]

end TallyVerif.Driver.Leg
