import TallyVerif.Driver.Util
import TallyVerif.Model.History
/-! op `history`: the cache state machine on a SYMBOLIC world — answers name which load they came from. -/
namespace TallyVerif.Driver
open Lean TallyVerif.History

def symWorld : World :=
  { RulesFile := String, CsvFile := String, Txn := String, Ast := String, Rx := String, Res := String,
    parse := fun e => "ast(" ++ e ++ ")", compile := fun p => "rx(" ++ p ++ ")",
    classifyEngine := fun f t => "engine:" ++ f ++ ":" ++ t,
    classifyLegacy := fun f t => "legacy:" ++ f ++ ":" ++ t,
    evalAst := fun a c t => "eval:" ++ a ++ ":" ++ t ++ ":" ++ c "p" }

def opOfJson (j : Json) : Op symWorld :=
  match jstr j "k" with
  | "load" => if jstr j "kind" == "rules" then .load (.rules (jstr j "name")) else .load (.csv (jstr j "name"))
  | "classify" => .classify (jstr j "t")
  | _ => .eval (jstr j "expr") (jstr j "t")

def outJson : Out symWorld → Json
  | .none => .null
  | .res r => .str r
  | .noRules => .str "norules"

def handleHistory (j : Json) : Json :=
  let fix := !(jbool j "unfixed_d7")
  let ops := (jarr j "ops").map opOfJson
  let (_, outs) := ops.foldl (fun (acc : State symWorld × List Json) op =>
    let (s', o) := step symWorld fix [] acc.1 op
    (s', acc.2 ++ [outJson o])) (init symWorld, [])
  obj [("outs", .arr outs.toArray)]

end TallyVerif.Driver
