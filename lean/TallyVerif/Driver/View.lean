import TallyVerif.Driver.Expr
import TallyVerif.Model.View
/-! ops `vieweval` (one view expression on one context), `views` (`classify_by_sections` +
`compute_section_totals`; with `view_ids` also the `sections` dictionary of the HTML report's data), `viewkeys` (the four strftime grouping keys of a date). -/
namespace TallyVerif.Driver
open Lean TallyVerif.Py TallyVerif.Expr TallyVerif.View

def vvalOfJson (j : Json) : VVal :=
  if jstr j "t" == "set" then .set ((jarr j "v").map asStr) else .v (valOfJson j)

def vvalToJson : VVal → Json
  | .v x => valToJson x
  | .set xs => obj [("t", .str "set"), ("v", .arr (xs.map Json.str).toArray)]

def viewExcOfName : String → PyExc
  | "TypeError" => .typeError | "AttributeError" => .attributeError | "ValueError" => .valueError
  | "KeyError" => .keyError | "IndexError" => .indexError | "ZeroDivisionError" => .zeroDivision
  | "StopIteration" => .stopIteration | "OverflowError" => .overflowError | "StatisticsError" => .valueError
  | _ => .reError

def viewBitsOpt (r : Json) : Option UInt64 :=
  match r with
  | .str s => (s.toNat?).map UInt64.ofNat
  | _ => none

def viewOraclesOf (t : Table) : View.Oracles :=
  { base := oraclesOf t
    stdev := fun xs => (t.find "stdev" (xs.map encNum)).map fun r =>
      match jstr? r "ok" with
      | some b => .ok (UInt64.ofNat (b.toNat?.getD 0))
      | none => .error (viewExcOfName (jstr r "raise"))
    sq := fun b => (t.find "sq" [toString b.toNat]).map viewBitsOpt
    sqrt := fun b => (t.find "sqrt" [toString b.toNat]).map viewBitsOpt }

def viewDateOfJson (j : Json) : Option Date :=
  match j with
  | .arr #[y, m, d] => some ⟨y.getNat?.toOption.getD 0, m.getNat?.toOption.getD 0, d.getNat?.toOption.getD 0⟩
  | _ => none

def vtxnOfJson (j : Json) : View.Txn :=
  { amount := valOfJson (jget j "amount"), date := viewDateOfJson (jget j "date"),
    category := jstr j "category", subcategory := jstr j "subcategory", merchant := jstr j "merchant",
    tags := (jarr j "tags").map asStr }

def vctxOfJson (j : Json) : View.Ctx :=
  { txns := (jarr j "txns").map vtxnOfJson
    variables := (jarr j "variables").map fun kv => match kv with
      | .arr p => (asStr (p.getD 0 .null), vvalOfJson (p.getD 1 .null))
      | _ => ("", .v .none)
    period := pairsVal (jget j "period") }

def handleViewEval (j : Json) : Json :=
  let o := viewOraclesOf (tableOfJson (jget j "oracle"))
  let ctx := vctxOfJson (jget j "ctx")
  let e := exprOfJson (jget j "expr")
  match View.evalRoot (jbool j "convert") o ctx e with
  | .ok x => obj [("ok", vvalToJson x), ("truthy", .bool (truthyV x))]
  | .error err => errJson err

def viewNamedExprs (l : List Json) : List (String × Expr) :=
  l.map fun kv => match kv with
    | .arr p => (asStr (p.getD 0 .null), exprOfJson (p.getD 1 .null))
    | _ => ("", .const .none)

def viewConfigOfJson (j : Json) : View.Config :=
  { globals := viewNamedExprs (jarr j "globals")
    sections := (jarr j "sections").map fun s =>
      { name := jstr s "name", filter := exprOfJson (jget s "filter"), variables := viewNamedExprs (jarr s "variables") } }

def viewMerchantOfJson (j : Json) : View.Merchant :=
  { name := jstr j "name", category := jstr j "category", subcategory := jstr j "subcategory",
    tags := (jarr j "tags").map asStr
    txns := (jarr j "txns").map fun t =>
      { y := (jint t "y").toNat, m := (jint t "m").toNat, amount := valOfJson (jget t "amount") }
    total := valOfJson (jget j "total") }

def handleViews (j : Json) : Json :=
  let t := tableOfJson (jget j "oracle")
  let o := viewOraclesOf t
  let lower : String → String := fun s =>
    if isAsciiStr s then lowerAscii s else ((t.find "lower" [s]).map asStr).getD s
  let cfg := viewConfigOfJson (jget j "config")
  let ms := (jarr j "merchants").map viewMerchantOfJson
  let n := (jint j "num_months").toNat
  let conv := jbool j "convert"
  match View.aborts conv o lower cfg n ms with
  | some e => errJson e
  | none =>
    let r := View.classifyViews conv o lower cfg n ms
    let pd := View.periodData n (View.keptMerchants lower ms)
    obj [("result", .arr (r.map fun (k, mem) => Json.arr #[.str k, .arr (mem.map fun m => Json.str m.name).toArray]).toArray),
         ("totals", .arr (r.map fun (k, mem) => Json.arr #[.str k, resultJson (View.sectionTotal mem), .num mem.length]).toArray),
         ("period", .arr (pd.map fun (k, v) => Json.arr #[.str k, valToJson v]).toArray)] |> fun out =>
    -- `view_ids` (optional): [[view name, the id the real report gives a view of that name], …] - the external id function of
    -- `write_summary_file_vue`; with it the answer also carries the report's `sections` dictionary (id, title, merchant names)
    match jget j "view_ids" with
    | .arr ids =>
      let tbl : List (String × String) := ids.toList.filterMap fun p =>
        match p with
        | .arr #[a, b] => some (asStr a, asStr b)
        | _ => none
      let idOf : String → String := fun s => (tbl.lookup s).getD s
      let h := View.htmlSections idOf (r.map fun (k, mem) => (k, mem.map (·.name)))
      out.setObjVal! "html" (.arr (h.map fun (i, t, mem) => Json.arr #[.str i, .str t, .arr (mem.map Json.str).toArray]).toArray)
    | _ => out

def handleViewKeys (j : Json) : Json :=
  .arr ((jarr j "dates").map fun dj =>
    match viewDateOfJson dj with
    | some d => Json.arr #[.str (fmtYm d), .str (fmtY d), .str (fmtYmd d), .str (fmtYW d)]
    | none => .null).toArray |> fun a => obj [("keys", a)]

end TallyVerif.Driver
