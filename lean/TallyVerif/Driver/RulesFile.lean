import TallyVerif.Driver.Util
import TallyVerif.Model.RulesFile
/-!
`rulesfile` / `viewsfile`: `Impl.parseRulesFile` / `Impl.parseViewsFile` on a text shipped as a list of
code points (no JSON string escaping in the way).  `valid` = [[codepoints, bool], …] is the table of
`expr_parser.parse_expression` outcomes computed by the harness; `word` = non-ASCII code points for
which `\w` matches.  Strings in the answer are code-point lists too.  A table miss is treated as
"invalid"; the parse is repeated with misses treated as "valid" and `miss` tells whether that changed
the answer (then the harness counts the case as a disagreement).
-/
namespace TallyVerif.Driver.RF
open Lean TallyVerif.Driver TallyVerif.RulesFile

def cpsOfJson : Json → Str
  | .arr a => a.toList.map fun
    | .num n => Char.ofNat n.mantissa.toNat
    | _ => ' '
  | _ => []

def cpsToJson (s : Str) : Json := .arr (s.map fun c => Json.num (c.toNat : Int)).toArray

def pairsToJson (l : List (Str × Str)) : Json :=
  .arr (l.map fun (a, b) => Json.arr #[cpsToJson a, cpsToJson b]).toArray

def validTable (j : Json) : List (Str × Bool) :=
  (jarr j "valid").map fun e =>
    match e with
    | .arr #[k, .bool b] => (cpsOfJson k, b)
    | _ => ([], false)

def lookupValid (tbl : List (Str × Bool)) (dflt : Bool) (e : Str) : Bool :=
  match tbl.lookup e with
  | some b => b
  | none => dflt

def strLe (a b : Str) : Bool := !(b < a)
def sortStrs (l : List Str) : List Str := l.mergeSort strLe

def mErrName : MErr → String
  | .emptyName => "emptyName" | .badLet => "badLet" | .badField => "badField"
  | .badPriority => "badPriority" | .unknownProperty => "unknownProperty"
  | .unexpectedContent => "unexpectedContent" | .missingMatch => "missingMatch"
  | .missingCategoryOrTags => "missingCategoryOrTags" | .invalidLetExpr => "invalidLetExpr"
  | .invalidFieldExpr => "invalidFieldExpr" | .invalidMatchExpr => "invalidMatchExpr"

def vErrName : VErr → String
  | .missingFilter => "missingFilter" | .filterOutside => "filterOutside"
  | .descriptionOutside => "descriptionOutside" | .invalidFilterExpr => "invalidFilterExpr"
  | .invalidVarExpr => "invalidVarExpr" | .unexpectedContent => "unexpectedContent"

def ruleToJson (r : Rule) : Json :=
  obj [("name", cpsToJson r.name), ("merchant", cpsToJson r.merchant), ("category", cpsToJson r.category),
       ("subcategory", cpsToJson r.subcategory), ("tags", .arr ((sortStrs r.tags).map cpsToJson).toArray),
       ("priority", .num r.priority), ("match", cpsToJson r.matchExpr),
       ("lets", pairsToJson r.lets), ("fields", pairsToJson r.fields)]

def rulesOut (r : Except (Nat × MErr) RulesFileResult) : Json :=
  match r with
  | .ok res => obj [("ok", obj [("rules", .arr (res.rules.map ruleToJson).toArray),
                                 ("vars", pairsToJson res.variables),
                                 ("transforms", pairsToJson res.transforms)])]
  | .error (n, k) => obj [("err", .str "parse"), ("line", .num (n : Int)), ("kind", .str (mErrName k))]

end TallyVerif.Driver.RF

namespace TallyVerif.Driver
open Lean TallyVerif.RulesFile TallyVerif.Driver.RF

def handleRulesFile (j : Json) : Json :=
  let lines := splitLines (cpsOfJson (jget j "text"))
  let tbl := validTable j
  let a := rulesOut (Impl.parseRulesFile (lookupValid tbl false) lines)
  let b := rulesOut (Impl.parseRulesFile (lookupValid tbl true) lines)
  a.setObjVal! "miss" (.bool (a.compress != b.compress))

end TallyVerif.Driver

namespace TallyVerif.Driver.RF
open Lean TallyVerif.Driver TallyVerif.RulesFile

def sectionToJson (s : Section) : Json :=
  obj [("name", cpsToJson s.name), ("filter", cpsToJson s.filterExpr),
       ("description", match s.description with | some d => cpsToJson d | none => .null),
       ("vars", pairsToJson s.variables)]

def viewsOut (r : Except (Nat × VErr) ViewsResult) : Json :=
  match r with
  | .ok res => obj [("ok", obj [("globals", pairsToJson res.globals),
                                 ("sections", .arr (res.sections.map sectionToJson).toArray)])]
  | .error (n, k) => obj [("err", .str "parse"), ("line", .num (n : Int)), ("kind", .str (vErrName k))]

end TallyVerif.Driver.RF

namespace TallyVerif.Driver
open Lean TallyVerif.RulesFile TallyVerif.Driver.RF

def handleViewsFile (j : Json) : Json :=
  let lines := splitLines (cpsOfJson (jget j "text"))
  let tbl := validTable j
  let word := (jarr j "word").map fun
    | .num n => n.mantissa.toNat
    | _ => 0
  let wordNA : Char → Bool := fun c => word.contains c.toNat
  let a := viewsOut (Impl.parseViewsFile (lookupValid tbl false) wordNA lines)
  let b := viewsOut (Impl.parseViewsFile (lookupValid tbl true) wordNA lines)
  a.setObjVal! "miss" (.bool (a.compress != b.compress))

/-- `isSpace` on a range of code points, for the table check against CPython -/
def handleSpaceTable (j : Json) : Json :=
  let hi := (jint j "hi").toNat
  obj [("spaces", .arr (((List.range hi).filter fun n => isSpace (Char.ofNat n)).map fun (n : Nat) => Json.num (Int.ofNat n)).toArray)]

end TallyVerif.Driver
