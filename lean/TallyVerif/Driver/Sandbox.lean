import TallyVerif.Driver.Util
import TallyVerif.Model.Sandbox
import TallyVerif.Gen.ExprTables
/-! op `validate`: the whitelist walk on a generic AST `{"k": kind, "c": [children…]}`. -/
namespace TallyVerif.Driver
open Lean TallyVerif.Sandbox

instance : Inhabited Tree := ⟨.node "" []⟩

partial def treeOfJson (j : Json) : Tree := .node (jstr j "k") ((jarr j "c").map treeOfJson)

def handleValidate (j : Json) : Json :=
  let t := treeOfJson (jget j "tree")
  obj [("valid", .bool (validate TallyVerif.Gen.ExprTables.allowedNodes t))]

end TallyVerif.Driver
