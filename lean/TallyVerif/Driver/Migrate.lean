import TallyVerif.Driver.Util
import TallyVerif.Driver.RulesFile
import TallyVerif.Driver.Rules
import TallyVerif.Model.Migrate
/-!
`migrate` (property C14): the executable M-Migrate model.  Text travels as lists of code points,
exact numbers as decimal strings.  `kind` selects:

* `unescape`  body                               → value of the Python literal `"` body `"`
* `escape`    p, fixA                            → what the converter writes between the quotes
* `mods`      parsed, txn, eps, fixB, cutoffs    → generated modifier text, `checkAll`, `modsHit`
* `file`      rules, fixA, fixB, eps, valid      → lines of the generated file, `Impl.parseRulesFile` of them,
                                                   the expected rules (`toRule`), `CsvRuleOk` per rule
* `classify`  rules, txn, eps, fixA, fixB, oracle tables, fallback → both classifiers
-/
namespace TallyVerif.Driver.Mig
open Lean TallyVerif.Driver TallyVerif.Migrate
open TallyVerif.Driver.RF (cpsOfJson cpsToJson)
open TallyVerif.RulesFile (Str)

def numLitOf (j : Json) : Migrate.NumLit := ⟨jint j "val", cpsOfJson (jget j "text")⟩

def natOf : Json → Nat
  | .num n => n.mantissa.toNat
  | _ => 0

def dateOf : Json → Option Date
  | .arr a => if a.size == 3 then some ⟨natOf a[0]!, natOf a[1]!, natOf a[2]!⟩ else none
  | _ => none

def dateD (j : Json) : Date := (dateOf j).getD ⟨0, 0, 0⟩

def amountCondOf (j : Json) : AmountCond :=
  let v := numLitOf (jget j "v")
  match jstr j "op" with
  | ">" => .gt v
  | ">=" => .ge v
  | "<" => .lt v
  | "<=" => .le v
  | "=" => .eq v
  | _ => .range (numLitOf (jget j "lo")) (numLitOf (jget j "hi"))

def dateCondOf (j : Json) : DateCond :=
  match jstr j "op" with
  | "=" => .on (dateD (jget j "d"))
  | ":" => .range (dateD (jget j "a")) (dateD (jget j "b"))
  | "month" => .month (natOf (jget j "m"))
  | _ => .relative (natOf (jget j "n"))

def parsedOf (j : Json) : Parsed :=
  ⟨(jarr j "amount").map amountCondOf, (jarr j "date").map dateCondOf⟩

def txnOf (j : Json) : Txn :=
  { desc := cpsOfJson (jget j "desc")
    amount := match jget j "amount" with
      | .null => none
      | _ => some (jint j "amount")
    date := dateOf (jget j "date") }

def csvRuleOf (j : Json) : CsvRule :=
  { pattern := cpsOfJson (jget j "pattern"), merchant := cpsOfJson (jget j "merchant"),
    category := cpsOfJson (jget j "category"), subcategory := cpsOfJson (jget j "subcategory"),
    parsed := parsedOf (jget j "parsed"),
    tags := (jarr j "tags").map cpsOfJson }

def cutoffOf (j : Json) : Nat → Date :=
  let tbl : List (Nat × Date) := (jarr j "cutoffs").map fun e =>
    match e with
    | .arr a => (natOf (a.getD 0 .null), dateD (a.getD 1 .null))
    | _ => (0, ⟨0, 0, 0⟩)
  fun n => (tbl.lookup n).getD ⟨0, 0, 0⟩

def litOut : Except LitErr Str → Json
  | .ok s => obj [("ok", cpsToJson s)]
  | .error .malformed => obj [("err", .str "malformed")]
  | .error .unsupported => obj [("err", .str "unsupported")]

/-- `[[pattern, subject, true|false|null], …]` -/
def reTable (j : Json) : List ((Str × Str) × Option Bool) :=
  (jarr j "re").map fun e =>
    match e with
    | .arr a => ((cpsOfJson (a.getD 0 .null), cpsOfJson (a.getD 1 .null)),
                 match a.getD 2 .null with
                 | .bool b => some b
                 | _ => none)
    | _ => (([], []), none)

def strPairs (j : Json) (k : String) : List (Str × Str) :=
  (jarr j k).map fun e =>
    match e with
    | .arr a => (cpsOfJson (a.getD 0 .null), cpsOfJson (a.getD 1 .null))
    | _ => ([], [])

def strLists (j : Json) (k : String) : List (Str × List Str) :=
  (jarr j k).map fun e =>
    match e with
    | .arr a => (cpsOfJson (a.getD 0 .null), match a.getD 1 .null with
        | .arr l => l.toList.map cpsOfJson
        | _ => [])
    | _ => ([], [])

def oraclesOf (j : Json) : Oracles :=
  let re := reTable j
  let up := strPairs j "upper"
  let lo := strPairs j "lower"
  let le : List (Str × Option Bool) := (jarr j "legacy_expr").map fun e =>
    match e with
    | .arr a => (cpsOfJson (a.getD 0 .null), match a.getD 1 .null with
        | .bool b => some b
        | _ => none)
    | _ => ([], none)
  let dl := strLists j "dyn_legacy"
  let de := strLists j "dyn_engine"
  { reSearch := fun p d => (re.lookup (p, d)).getD none
    upper := fun d => (up.lookup d).getD d
    lowerTag := fun s => (lo.lookup s).getD s
    legacyExpr := fun p => (le.lookup p).getD none
    cutoff := cutoffOf j
    dynLegacy := fun s => (dl.lookup s).getD []
    dynEngine := fun s => (de.lookup s).getD [] }

def sortS (l : List String) : List String := (l.toArray.qsort (· < ·)).toList

def outcomeName : Rules.LOutcome → String
  | .matched => "matched" | .noMatch => "noMatch" | .skipped => "skipped"

def handleMigrate (j : Json) : Json :=
  let fixA := jbool j "fixA"
  let fixB := jbool j "fixB"
  let fixE := jbool j "fixE"
  let eps := numLitOf (jget j "eps")
  match jstr j "kind" with
  | "unescape" => litOut (pyUnescape (cpsOfJson (jget j "body")))
  | "escape" => obj [("out", cpsToJson (pyEscape fixA (cpsOfJson (jget j "p"))))]
  | "mods" =>
    let p := parsedOf (jget j "parsed")
    let t := txnOf (jget j "txn")
    let atoms := modifierExpr fixB eps p
    obj [("text", cpsToJson (atomsText atoms)),
         ("check", .bool (checkAll eps.val (cutoffOf j) p t.amount t.date)),
         ("hit", .bool (modsHit t atoms)),
         ("conj", .bool (hitConj t atoms)),
         ("has_note", .bool (atoms.any Atom.isNote))]
  | "file" =>
    let cs := kept fixE ((jarr j "rules").map csvRuleOf)
    let lines := render fixA fixB eps cs
    let tbl := RF.validTable j
    let parsed := RulesFile.Impl.parseRulesFile (RF.lookupValid tbl false) lines
    obj [("lines", .arr (lines.map cpsToJson).toArray),
         ("parsed", RF.rulesOut parsed),
         ("expect", .arr ((cs.map (toRule fixA fixB eps)).map RF.ruleToJson).toArray),
         ("ok", .arr (cs.map fun c => Json.bool (CsvRuleOk c)).toArray),
         ("match_texts", .arr (cs.map fun c => cpsToJson (matchText fixA fixB eps c)).toArray)]
  | "classify" =>
    let cs := (jarr j "rules").map csvRuleOf
    let t := txnOf (jget j "txn")
    let o := oraclesOf j
    let fb := jstr j "fallback"
    let L := classifyLegacy o eps.val fb cs t
    let tbl := RF.validTable j
    let ve := RF.lookupValid tbl false
    let nParsed := match RulesFile.Impl.parseRulesFile ve (render fixA fixB eps (kept fixE cs)) with
      | .ok res => res.rules.length
      | .error _ => 0
    let engine : Json := match Impl.classifyMigrated o ve fixA fixB fixE eps Driver.modelKey cs t with
      | .error (n, k) => obj [("load_error", .num (n : Int)), ("kind", .str (RF.mErrName k))]
      | .ok E =>
        if nParsed != (kept fixE cs).length then obj [("unmodelled", .str "number of parsed sections differs from the number of tuples")]
        else
          let n := Rules.normalizeEngine E fb
          obj [("merchant", .str n.1), ("category", .str n.2.1), ("subcategory", .str n.2.2),
               ("tags", .arr ((sortS E.tags).map Json.str).toArray)]
    obj [("legacy", obj [("merchant", .str L.merchant), ("category", .str L.category),
                         ("subcategory", .str L.subcategory), ("tags", .arr ((sortS L.tags).map Json.str).toArray)]),
         ("engine", engine),
         ("outcomes", .arr (cs.map fun c => Json.str (outcomeName (legacyOutcome o eps.val c t))).toArray),
         ("hits", .arr (cs.map fun c => Json.bool (engineHit o fixA fixB eps c t)).toArray),
         ("decoded", .arr (cs.map fun c => litOut (pyUnescape (pyEscape fixA c.pattern))).toArray)]
  | k => obj [("err", .str s!"unknown migrate kind {k}")]

end TallyVerif.Driver.Mig
