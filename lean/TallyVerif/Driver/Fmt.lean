import TallyVerif.Driver.Util
import TallyVerif.Model.Fmt
/-! ops `fmt`, `detect`, `suggest`: `Fmt.Impl.parseFormat`, `Fmt.Impl.detect`, `Fmt.Impl.suggest`.
The `Ext` parameters travel with the case: `ext.space` / `ext.word` are the non-ASCII code points for which
Python answered true, `ext.lower` is a table `[[s, s.lower()], …]` (a miss returns the string unchanged). -/
namespace TallyVerif.Driver
open Lean TallyVerif TallyVerif.Fmt

def natList (j : Json) (k : String) : List Nat :=
  (jarr j k).filterMap fun x => match x with
    | .num n => if n.exponent == 0 then some n.mantissa.toNat else none
    | _ => none

def extOfJson (j : Json) : Ext :=
  let x := jget j "ext"
  let sp := natList x "space"
  let wd := natList x "word"
  let lw : List (Str × Str) := (jarr x "lower").filterMap fun p => match p with
    | .arr a => if a.size == 2 then some ((asStr a[0]!).toList, (asStr a[1]!).toList) else none
    | _ => none
  { spaceNA := fun c => sp.contains c.toNat
    wordNA := fun c => wd.contains c.toNat
    lowerNA := fun s => match lw.find? (fun p => p.1 == s) with
      | some p => p.2
      | none => s }

def jS (s : Str) : Json := .str (String.ofList s)
def jOptNat : Option Nat → Json
  | some n => .num n
  | none => .null
def jDict : Option (List (Str × Nat)) → Json
  | none => .null
  | some d => .arr (d.map fun (k, v) => .arr #[jS k, .num v]).toArray

def errToJson : Err → Json
  | .invalidToken i => obj [("err", .str "ValueError"), ("kind", .str "invalid_token"), ("idx", .num i)]
  | .dupField i => obj [("err", .str "ValueError"), ("kind", .str "dup_field"), ("idx", .num i)]
  | .dupCustom i => obj [("err", .str "ValueError"), ("kind", .str "dup_custom"), ("idx", .num i)]
  | .noDescription => obj [("err", .str "ValueError"), ("kind", .str "no_description")]
  | .needTemplate => obj [("err", .str "ValueError"), ("kind", .str "need_template")]
  | .uncapturedRef r => obj [("err", .str "ValueError"), ("kind", .str "uncaptured_ref"), ("ref", jS r)]
  | .missingRequired => obj [("err", .str "ValueError"), ("kind", .str "missing_required")]
  | .keyError => obj [("err", .str "KeyError"), ("kind", .str "key_error")]

def specToJson (s : FormatSpec) : Json :=
  obj [("date_column", .num s.dateColumn), ("date_format", jS s.dateFormat), ("amount_column", .num s.amountColumn),
       ("description_column", jOptNat s.descriptionColumn), ("custom_captures", jDict s.customCaptures),
       ("description_template", match s.descriptionTemplate with | some t => jS t | none => .null),
       ("extra_fields", jDict s.extraFields), ("location_column", jOptNat s.locationColumn),
       ("negate_amount", .bool s.negateAmount), ("abs_amount", .bool s.absAmount)]

def parseToJson (r : Except Err FormatSpec) : Json :=
  match r with
  | .ok s => obj [("ok", specToJson s)]
  | .error e => errToJson e

def handleFmt (j : Json) : Json :=
  let e := extOfJson j
  let tmpl : Option Str := (jstr? j "template").map String.toList
  parseToJson (Impl.parseFormat e (jstr j "format").toList tmpl)

def detectSpecOfJson (j : Json) : Impl.DetectSpec :=
  { dateColumn := (jint j "date").toNat, dateFormat := (jstr j "date_format").toList,
    descriptionColumn := (jint j "desc").toNat, amountColumn := (jint j "amount").toNat,
    locationColumn := match jget j "location" with
      | .num n => some n.mantissa.toNat
      | _ => none }

def detectSpecToJson (s : Impl.DetectSpec) : Json :=
  obj [("date", .num s.dateColumn), ("date_format", jS s.dateFormat), ("desc", .num s.descriptionColumn),
       ("amount", .num s.amountColumn), ("location", jOptNat s.locationColumn)]

/-- `detect`: headers → detection; when it succeeds also the suggestion and what the parser makes of it -/
def handleDetect (j : Json) : Json :=
  let e := extOfJson j
  let hs := (jarr j "headers").map fun h => (asStr h).toList
  match Impl.detect e hs with
  | .error .empty => obj [("err", .str "ValueError"), ("kind", .str "empty")]
  | .error .missing => obj [("err", .str "ValueError"), ("kind", .str "missing")]
  | .ok sp => obj [("ok", detectSpecToJson sp), ("suggest", jS (Impl.suggest sp)),
                   ("reparse", parseToJson (Impl.parseFormat e (Impl.suggest sp) none))]

/-- `suggest`: an arbitrary detected spec → the suggested format string (+ its parse) -/
def handleSuggest (j : Json) : Json :=
  let e := extOfJson j
  let sp := detectSpecOfJson j
  obj [("suggest", jS (Impl.suggest sp)), ("reparse", parseToJson (Impl.parseFormat e (Impl.suggest sp) none))]

/-- `fmtprim`: the native ASCII primitives and the string helpers, for the primitive-agreement stream -/
def handleFmtPrim (j : Json) : Json :=
  let e := extOfJson j
  let s := (jstr j "s").toList
  obj [("split", .arr ((splitComma s).map jS).toArray), ("strip", jS (strip e s)), ("lower", jS (e.lower s)),
       ("space", .arr ((s.map fun c => Json.bool (e.isSpace c)).toArray)),
       ("word", .arr ((s.map fun c => Json.bool (e.isWord c)).toArray)),
       ("refs", .arr ((templateRefs e s).map jS).toArray),
       ("tok", match matchTok e s with
          | none => .null
          | some t => .arr #[(match t.sign with | some c => jS [c] | none => jS []), jS t.name,
                             (match t.spec with | some f => jS f | none => .null)])]

end TallyVerif.Driver
