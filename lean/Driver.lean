import TallyVerif.Driver.Util
import TallyVerif.Driver.Classify
import TallyVerif.Driver.Analyze
import TallyVerif.Driver.Rules
import TallyVerif.Driver.Expr
import TallyVerif.Driver.Engine
import TallyVerif.Driver.Sandbox
import TallyVerif.Driver.History
import TallyVerif.Driver.Pipeline
import TallyVerif.Driver.Report
import TallyVerif.Driver.RulesFile
import TallyVerif.Driver.Fmt
import TallyVerif.Driver.Csv
import TallyVerif.Driver.Strptime
import TallyVerif.Driver.Fs
import TallyVerif.Driver.View
import TallyVerif.Driver.Discover
import TallyVerif.Driver.Migrate
import TallyVerif.Driver.Legacy
import TallyVerif.Driver.Config
/-! `tvdrv`: one JSON object per line in, one canonical JSON object per line out. -/
open Lean TallyVerif.Driver

def dispatch (j : Json) : Json :=
  match jstr j "op" with
  | "classify" => handleClassify j
  | "analyze" => handleAnalyze j
  | "typetotals" => handleTypeTotals j
  | "match" => handleMatch j
  | "legacy" => handleLegacy j
  | "transforms" => handleTransforms j
  | "eval" => handleEval j
  | "engine" => handleEngine j
  | "validate" => handleValidate j
  | "history" => handleHistory j
  | "pipeline" => handlePipeline j
  | "explain" => handleExplain j
  | "discoverlist" => handleDiscoverList j
  | "legacyshape" => handleLegacyShape j
  | "report" => handleReport j
  | "rulesfile" => handleRulesFile j
  | "viewsfile" => handleViewsFile j
  | "spacetable" => handleSpaceTable j
  | "fmt" => handleFmt j
  | "detect" => handleDetect j
  | "suggest" => handleSuggest j
  | "fmtprim" => handleFmtPrim j
  | "csv" => handleCsv j
  | "amount" => handleAmount j
  | "spaces" => handleSpaces j
  | "strptime" => handleStrptime j
  | "strptime_names" => handleStrptimeNames j
  | "discover" => handleDiscover j
  | "migrate" => TallyVerif.Driver.Mig.handleMigrate j
  | "legacycsv" => TallyVerif.Driver.Leg.handleLegacyCsv j
  | "vieweval" => handleViewEval j
  | "views" => handleViews j
  | "viewkeys" => handleViewKeys j
  | "fs" => FsD.handleFs j
  | "fsseq" => FsD.handleFsSeq j
  | "config" => handleConfig j
  | "resolvesource" => handleResolveSource j
  | "paths" => handlePaths j
  | "truthy" => handleTruthy j
  | "ping" => obj [("pong", .bool true)]
  | op => obj [("err", .str s!"unknown op {op}")]

partial def loop (h : IO.FS.Stream) (out : IO.FS.Stream) : IO Unit := do
  let line ← h.getLine
  if line.isEmpty then return ()
  let t := line.trimAscii.toString
  if t.isEmpty then loop h out else
  match Json.parse t with
  | .ok j =>
    let r := dispatch j
    let r := match j.getObjVal? "id" with
      | .ok i => r.setObjVal! "id" i
      | _ => r
    out.putStrLn r.compress
  | .error e => out.putStrLn (obj [("err", .str s!"bad json: {e}")]).compress
  loop h out

def main : IO Unit := do
  let i ← IO.getStdin
  let o ← IO.getStdout
  loop i o
  o.flush
